#!/bin/bash
# Runs majorana's pinned test suite (guard OFF) in DIR (default /repo) and
# compares with /root/.vp/BASELINE.json's stable_pass list.
# usage: baseline.sh [DIR]   exit 0 iff every stable test passed.
DIR=${1:-/repo}
export GOFLAGS=-mod=mod GOPROXY=off GOSUMDB=off GOTOOLCHAIN=local
OUT=$(mktemp /var/tmp/baseline.XXXXXX.json)
(cd "$DIR" && go test -mod=mod -json -vet=off -count=1 -timeout 25m ./... > "$OUT" 2>/dev/null)
python3 - "$OUT" <<'PY'
import json,sys
passed=set(); failed=set()
for l in open(sys.argv[1]):
    try: e=json.loads(l)
    except Exception: continue
    if e.get('Test') and e.get('Action') in ('pass','fail'):
        k=e['Package']+'::'+e['Test']
        (passed if e['Action']=='pass' else failed).add(k)
b=json.load(open('/root/.vp/BASELINE.json'))
stable=set(b['stable_pass'])
missing=sorted(stable-passed)
print(f"stable={len(stable)} passed_now={len(passed)} failed_now={len(failed)} stable_not_passing={len(missing)}")
for m in missing[:40]: print("  NOT PASSING:",m)
sys.exit(1 if missing else 0)
PY
rc=$?
rm -f "$OUT"
exit $rc
