module verifsim

go 1.23

toolchain go1.23.5

require (
	github.com/anishathalye/porcupine v1.3.0
	github.com/teivah/majorana v0.0.0
	pgregory.net/rapid v1.3.0
)

require (
	github.com/davecgh/go-spew v1.1.1 // indirect
	github.com/pmezard/go-difflib v1.0.0 // indirect
	github.com/stretchr/testify v1.9.0 // indirect
	gopkg.in/yaml.v3 v3.0.1 // indirect
)

replace github.com/teivah/majorana => /repo
