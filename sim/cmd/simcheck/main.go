// simcheck is the single driver of all property checks.
//
//	simcheck run     -property C01 -tier quick|thorough [-seed N] [-workers W]
//	simcheck worker  -property C01 -tier quick -seed N -from A -to B   (internal)
//	simcheck replay  <file>
//
// Exit codes: 0 property held on everything explored; 1 at least one
// VIOLATION line; 2 infrastructure trouble (no verdict).
package main

import (
	"bytes"
	"encoding/json"
	"flag"
	"fmt"
	"os"
	"os/exec"
	"path/filepath"
	"runtime"
	"sort"
	"strconv"
	"strings"
	"sync"
	"time"

	"verifsim/internal/api"
	"verifsim/internal/findings"
	"verifsim/internal/registry"
	"verifsim/internal/rng"
)

const (
	maxSamples    = 3
	maxViolations = 200
)

func verifDir() string {
	if d := os.Getenv("VERIF_DIR"); d != "" {
		return d
	}
	return "/verif"
}

func defaultSeed(prop, tier string) uint64 {
	// fixed, so that the manifest commands are repeatable
	return rng.HashString("majorana/"+prop+"/"+tier) >> 1
}

func main() {
	if len(os.Args) < 2 {
		fmt.Fprintln(os.Stderr, "usage: simcheck run|worker|replay ...")
		os.Exit(2)
	}
	switch os.Args[1] {
	case "run":
		os.Exit(cmdRun(os.Args[2:]))
	case "worker":
		os.Exit(cmdWorker(os.Args[2:]))
	case "replay":
		os.Exit(cmdReplay(os.Args[2:]))
	default:
		fmt.Fprintln(os.Stderr, "unknown command", os.Args[1])
		os.Exit(2)
	}
}

func cmdWorker(args []string) int {
	fs := flag.NewFlagSet("worker", flag.ExitOnError)
	prop := fs.String("property", "", "")
	tier := fs.String("tier", "quick", "")
	seed := fs.Uint64("seed", 0, "")
	from := fs.Int("from", 0, "")
	to := fs.Int("to", 0, "")
	fs.Parse(args)
	c := registry.Get(*prop)
	if c == nil {
		fmt.Fprintln(os.Stderr, "unknown property", *prop)
		return 2
	}
	res := c.Run(api.Batch{Property: *prop, Tier: *tier, Seed: *seed, From: *from, To: *to})
	res.Pack()
	enc := json.NewEncoder(os.Stdout)
	if err := enc.Encode(res); err != nil {
		fmt.Fprintln(os.Stderr, err)
		return 2
	}
	return 0
}

type replayFile struct {
	Property string          `json:"property"`
	Class    string          `json:"class"`
	Detail   string          `json:"detail"`
	Seed     uint64          `json:"seed"`
	RunIndex int             `json:"run_index"`
	Tier     string          `json:"tier,omitempty"`
	Payload  json.RawMessage `json:"replay"`
}

func cmdReplay(args []string) int {
	if len(args) < 1 {
		fmt.Fprintln(os.Stderr, "usage: simcheck replay <file>")
		return 2
	}
	data, err := os.ReadFile(args[0])
	if err != nil {
		fmt.Fprintln(os.Stderr, err)
		return 2
	}
	var rf replayFile
	if err := json.Unmarshal(data, &rf); err != nil {
		fmt.Fprintln(os.Stderr, "bad replay file:", err)
		return 2
	}
	c := registry.Get(rf.Property)
	if c == nil {
		fmt.Fprintln(os.Stderr, "unknown property", rf.Property)
		return 2
	}
	v, err := c.Replay(rf.Payload)
	if err != nil {
		fmt.Fprintln(os.Stderr, "replay failed:", err)
		return 2
	}
	if v == nil {
		fmt.Printf("REPLAY property=%s: execution satisfies the property now (recorded class %q)\n", rf.Property, rf.Class)
		return 0
	}
	same := "same class"
	if v.Class != rf.Class {
		same = fmt.Sprintf("DIFFERENT class (recorded %q)", rf.Class)
	}
	fmt.Printf("REPLAY property=%s class=%q %s: %s\n", rf.Property, v.Class, same, v.Detail)
	if ex, ok := c.(api.Explainer); ok {
		if id, err := ex.Explain(rf.Payload); err == nil && id != "" {
			fmt.Printf("note: this violation lies inside the trigger of open known finding %s\n", id)
		}
	}
	fmt.Printf("VIOLATION property=%s replay=%s\n", rf.Property, args[0])
	return 1
}

func cmdRun(args []string) int {
	fs := flag.NewFlagSet("run", flag.ExitOnError)
	prop := fs.String("property", "", "")
	tier := fs.String("tier", os.Getenv("VERIF_TIER"), "")
	seedFlag := fs.String("seed", os.Getenv("VERIF_SEED"), "")
	workers := fs.Int("workers", 0, "")
	runsOverride := fs.Int("runs", 0, "override the number of run indices")
	noEvidence := fs.Bool("no-evidence", false, "")
	fs.Parse(args)
	if *tier == "" {
		*tier = "quick"
	}
	c := registry.Get(*prop)
	if c == nil {
		fmt.Fprintln(os.Stderr, "unknown property", *prop)
		return 2
	}
	seed := defaultSeed(*prop, *tier)
	if *seedFlag != "" {
		s, err := strconv.ParseInt(*seedFlag, 10, 64)
		if err != nil {
			u, err2 := strconv.ParseUint(*seedFlag, 10, 64)
			if err2 != nil {
				fmt.Fprintln(os.Stderr, "bad seed", *seedFlag)
				return 2
			}
			seed = u
		} else {
			seed = uint64(s)
		}
	}
	fmt.Printf("simcheck property=%s tier=%s VERIF_SEED=%d\n", *prop, *tier, int64(seed))
	start := time.Now()
	w := *workers
	if w <= 0 {
		w = runtime.NumCPU()
		if w > 16 {
			w = 16
		}
	}
	runs := c.Runs(*tier)
	if *runsOverride > 0 {
		runs = *runsOverride
	}

	kf, err := findings.Load(filepath.Join(verifDir(), "KNOWN_FINDINGS.txt"))
	if err != nil {
		fmt.Fprintln(os.Stderr, "known findings:", err)
		return 2
	}

	total := api.NewResult()
	infra := false

	// 1. replay the open known findings of this property
	for _, f := range kf.Open(*prop) {
		path := filepath.Join(verifDir(), f.Replay)
		data, err := os.ReadFile(path)
		if err != nil {
			fmt.Fprintf(os.Stderr, "known finding %s: %v\n", f.ID, err)
			infra = true
			continue
		}
		var rf replayFile
		if err := json.Unmarshal(data, &rf); err != nil {
			fmt.Fprintf(os.Stderr, "known finding %s: %v\n", f.ID, err)
			infra = true
			continue
		}
		rc := c
		if rf.Property != "" && rf.Property != *prop {
			// the finding is recorded with a replay of another property's check (same root cause)
			if rc = registry.Get(rf.Property); rc == nil {
				fmt.Fprintf(os.Stderr, "known finding %s: replay file is for unknown property %s\n", f.ID, rf.Property)
				infra = true
				continue
			}
		}
		v, err := rc.Replay(rf.Payload)
		if err != nil {
			fmt.Fprintf(os.Stderr, "known finding %s: replay: %v\n", f.ID, err)
			infra = true
			continue
		}
		if v != nil {
			fmt.Printf("KNOWN-FINDING: property=%s %s %s (class %s)\n", *prop, f.ID, f.What, v.Class)
			total.Count("known_finding_replayed_still_failing", 1)
		} else {
			fmt.Printf("note: known finding %s no longer reproduces on this tree\n", f.ID)
		}
	}

	// 2. the batch, in worker processes
	chunk := (runs + w*4 - 1) / (w * 4)
	if chunk < 1 {
		chunk = 1
	}
	if chunk > 4000 {
		chunk = 4000
	}
	type job struct{ from, to int }
	var jobs []job
	for a := 0; a < runs; a += chunk {
		b := a + chunk
		if b > runs {
			b = runs
		}
		jobs = append(jobs, job{a, b})
	}
	results := make([]*api.Result, len(jobs))
	errs := make([]error, len(jobs))
	var wg sync.WaitGroup
	sem := make(chan struct{}, w)
	self, _ := os.Executable()
	for i, j := range jobs {
		wg.Add(1)
		sem <- struct{}{}
		go func(i int, j job) {
			defer wg.Done()
			defer func() { <-sem }()
			cmd := exec.Command(self, "worker", "-property", *prop, "-tier", *tier,
				"-seed", strconv.FormatUint(seed, 10), "-from", strconv.Itoa(j.from), "-to", strconv.Itoa(j.to))
			var out, errb bytes.Buffer
			cmd.Stdout = &out
			cmd.Stderr = &errb
			done := make(chan error, 1)
			if err := cmd.Start(); err != nil {
				errs[i] = err
				return
			}
			go func() { done <- cmd.Wait() }()
			timeout := 30 * time.Minute
			if *tier == "thorough" {
				timeout = 3 * time.Hour
			}
			select {
			case err := <-done:
				if err != nil {
					errs[i] = fmt.Errorf("worker [%d,%d): %v: %s", j.from, j.to, err, tail(errb.String(), 2000))
					return
				}
			case <-time.After(timeout):
				cmd.Process.Kill()
				errs[i] = fmt.Errorf("worker [%d,%d): watchdog timeout", j.from, j.to)
				return
			}
			var r api.Result
			if err := json.Unmarshal(out.Bytes(), &r); err != nil {
				errs[i] = fmt.Errorf("worker [%d,%d): bad output: %v", j.from, j.to, err)
				return
			}
			results[i] = &r
		}(i, j)
	}
	wg.Wait()
	for i := range jobs {
		if errs[i] != nil {
			fmt.Fprintln(os.Stderr, "INFRA:", errs[i])
			infra = true
			continue
		}
		total.Merge(results[i], maxSamples, maxViolations)
	}

	// 2b. C08 (e): the first outcomes recomputed in one more process with another
	// GOMAXPROCS and another chunking must give the same digest
	if *prop == "C08" && !infra {
		head := runs
		if head > 400 {
			head = 400
		}
		cmd := exec.Command(self, "worker", "-property", *prop, "-tier", *tier,
			"-seed", strconv.FormatUint(seed, 10), "-from", "0", "-to", strconv.Itoa(head))
		cmd.Env = append(os.Environ(), "GOMAXPROCS=1")
		var out bytes.Buffer
		cmd.Stdout = &out
		if err := cmd.Run(); err != nil {
			fmt.Fprintln(os.Stderr, "INFRA: second-process pass:", err)
			infra = true
		} else {
			var r2 api.Result
			if err := json.Unmarshal(out.Bytes(), &r2); err != nil {
				fmt.Fprintln(os.Stderr, "INFRA: second-process pass:", err)
				infra = true
			} else if r2.Counters["digest_head_sum"] != total.Counters["digest_head_sum"] {
				fmt.Fprintf(os.Stderr, "INFRA: outcomes of run indices [0,%d) differ between processes (digest %d vs %d): harness or majorana is not deterministic across processes; no verdict\n",
					head, total.Counters["digest_head_sum"], r2.Counters["digest_head_sum"])
				infra = true
			} else {
				total.Count("second_process_outcomes_compared", int64(head))
			}
		}
	}

	// 3. classify violations
	outDir := filepath.Join(verifDir(), "out", *prop)
	os.MkdirAll(outDir, 0o755)
	var fresh []api.Violation
	seenClass := map[string]int{}
	for _, v := range total.Violations {
		if id := kf.Match(*prop, v); id != "" {
			total.Count("violations_matching_known_finding:"+id, 1)
			continue
		}
		fresh = append(fresh, v)
	}
	sort.SliceStable(fresh, func(i, j int) bool { return fresh[i].RunIndex < fresh[j].RunIndex })
	// cross-check: the workers count every unattributed violation they see;
	// if they counted some and none arrived here, the driver lost them
	var counted int64
	for k, n := range total.Counters {
		if strings.HasPrefix(k, "violation:") {
			counted += n
		}
	}
	if counted > 0 && len(fresh) == 0 {
		fmt.Fprintf(os.Stderr, "INFRA: the workers counted %d unattributed violations but none was merged; no verdict\n", counted)
		infra = true
	}
	reported := 0
	for _, v := range fresh {
		seenClass[v.Class]++
		if seenClass[v.Class] > 3 || reported >= 20 {
			continue
		}
		reported++
		rf := replayFile{Property: *prop, Class: v.Class, Detail: v.Detail, Seed: v.Seed, RunIndex: v.RunIndex, Tier: *tier, Payload: v.Replay}
		data, _ := json.MarshalIndent(rf, "", " ")
		name := fmt.Sprintf("%s-%016x.replay.json", sanitize(v.Class), rng.HashString(string(v.Replay)))
		path := filepath.Join(outDir, name)
		if err := os.WriteFile(path, data, 0o644); err != nil {
			fmt.Fprintln(os.Stderr, "INFRA: cannot write replay:", err)
			infra = true
			continue
		}
		fmt.Printf("violation class=%q run=%d: %s\n", v.Class, v.RunIndex, v.Detail)
		fmt.Printf("VIOLATION property=%s replay=%s\n", *prop, path)
	}
	if len(fresh) > reported {
		fmt.Printf("(%d further violations in %d classes not written out)\n", len(fresh)-reported, len(seenClass))
	}

	if v := os.Getenv("VERIF_RACE_REPORTS"); v != "" {
		n, _ := strconv.Atoi(v)
		total.Count("race_detector_reports_over_200_run_indices", int64(n))
		total.Count("race_detector_pass_done", 1)
	}
	wall := time.Since(start).Seconds()
	if !*noEvidence {
		if err := writeEvidence(c, *prop, *tier, seed, total, len(fresh), wall, runs); err != nil {
			fmt.Fprintln(os.Stderr, "INFRA: evidence:", err)
			infra = true
		}
	}
	fmt.Printf("done property=%s tier=%s runs=%d evaluations=%d distinct=%d violations=%d wall=%.1fs\n",
		*prop, *tier, runs, total.Evaluations, len(total.Distinct), len(fresh), wall)
	if len(fresh) > 0 {
		return 1
	}
	if infra {
		return 2
	}
	return 0
}

func tail(s string, n int) string {
	if len(s) > n {
		return s[len(s)-n:]
	}
	return s
}

func sanitize(s string) string {
	var b strings.Builder
	for _, r := range s {
		switch {
		case r >= 'a' && r <= 'z', r >= 'A' && r <= 'Z', r >= '0' && r <= '9', r == '-', r == '_':
			b.WriteRune(r)
		default:
			b.WriteByte('_')
		}
	}
	out := b.String()
	if len(out) > 60 {
		out = out[:60]
	}
	return out
}

func writeEvidence(c api.Check, prop, tier string, seed uint64, r *api.Result, violations int, wall float64, runs int) error {
	d := c.Describe()
	samples := make([]any, 0, len(r.Samples))
	for _, s := range r.Samples {
		var v any
		json.Unmarshal(s, &v)
		samples = append(samples, v)
	}
	if len(samples) == 0 {
		samples = append(samples, "no sample recorded")
	}
	perHour := 0.0
	if wall > 0 {
		perHour = float64(r.Evaluations) / wall * 3600
	}
	counters := map[string]int64{}
	for k, v := range r.Counters {
		counters[k] = v
	}
	ev := map[string]any{
		"property_id": prop,
		"tier":        tier,
		"seed":        int64(seed),
		"level":       d.Level,
		"coverage": map[string]any{
			"evaluations":         r.Evaluations,
			"distinct_nontrivial": len(r.Distinct),
			"rule":                d.Rule,
			"samples":             samples,
			"run_indices":         runs,
			"runs_per_hour":       int64(perHour),
			"simulated_time":      r.SimCycles,
			"simulated_time_unit": "machine cycles (whole-machine and rig simulations) or operations (component simulations)",
			"counters":            counters,
			"fault_kinds":         d.FaultKinds,
			"real_components":     d.Real,
			"stub_components":     d.Stub,
			"inconclusive":        r.Inconclusive,
		},
		"assumptions": d.Assumptions,
		"wall_s":      wall,
		"violations":  violations,
	}
	data, err := json.MarshalIndent(ev, "", " ")
	if err != nil {
		return err
	}
	dir := filepath.Join(verifDir(), "evidence")
	os.MkdirAll(dir, 0o755)
	return os.WriteFile(filepath.Join(dir, prop+".json"), data, 0o644)
}
