package main

import (
	"fmt"
	"os"
	"sort"
	"strconv"
	"sync"

	"verifsim/internal/core"
	"verifsim/internal/gen"
	"verifsim/internal/isa"
	"verifsim/internal/mach"
)

func profile(which string) *gen.Profile {
	p := &gen.Profile{Name: "general", MinSegs: 3, MaxSegs: 12, PoolMin: 2, PoolMax: 8, WAlu: 6, WLoad: 3, WStore: 3, WFwdBranch: 2, WLoop: 1, WJumpOver: 1, WCall: 1, WDivRem: 1, WNop: 1, WLi: 1, WPair: 2, AddrRegsMax: 3, SubWord: true, LoopMaxIter: 5, WEndRet: 2, WEndFall: 1, WEndJump: 1, ShadowDanger: true}
	switch which {
	case "alu":
		p = &gen.Profile{Name: "alu", MinSegs: 3, MaxSegs: 12, PoolMin: 2, PoolMax: 8, WAlu: 6, WNop: 1, WLi: 1, WPair: 2, NoMem: true, WEndRet: 2, WEndFall: 1, WEndJump: 1}
	case "alubr":
		p = &gen.Profile{Name: "alubr", MinSegs: 3, MaxSegs: 12, PoolMin: 2, PoolMax: 8, WAlu: 6, WFwdBranch: 2, WNop: 1, WLi: 1, WPair: 2, NoMem: true, WEndRet: 2, WEndFall: 1, WEndJump: 1}
	case "jump":
		p = &gen.Profile{Name: "jump", MinSegs: 3, MaxSegs: 12, PoolMin: 2, PoolMax: 8, WAlu: 6, WFwdBranch: 2, WJumpOver: 2, WCall: 1, WLoop: 1, WNop: 1, WLi: 1, WPair: 2, NoMem: true, LoopMaxIter: 4, WEndRet: 2, WEndFall: 1, WEndJump: 1}
	case "load":
		p = &gen.Profile{Name: "load", MinSegs: 3, MaxSegs: 12, PoolMin: 2, PoolMax: 8, WAlu: 6, WLoad: 3, WNop: 1, WLi: 1, WPair: 2, NoStores: true, AddrRegsMax: 2, WEndRet: 2, WEndFall: 1, WEndJump: 1}
	case "mem":
		p = &gen.Profile{Name: "mem", MinSegs: 3, MaxSegs: 12, PoolMin: 2, PoolMax: 8, WAlu: 6, WLoad: 3, WStore: 3, WNop: 1, WLi: 1, AddrRegsMax: 2, WEndRet: 2, WEndFall: 1, WEndJump: 1}
	}
	return p
}

func cfgFor(v mach.Variant, i int) mach.Config {
	par := 1 + i%4
	return mach.Config{V: v, EU: par, WU: 1 + (i/4)%4, Cores: par}.Normalize()
}

func check(c *core.Case) string {
	if len(c.Prog.Insts) == 0 {
		return ""
	}
	ref := isa.Exec(c.Prog, c.Init, 20000, true)
	if !ref.End.WellFormed() || ref.End.DefinedError() {
		return ""
	}
	app, err := core.Parse(c.Prog)
	if err != nil {
		return core.ParseError
	}
	out := mach.Run(c.Cfg, app, c.Init, core.BudgetTicks(len(ref.Trace)), nil)
	return core.Compare(ref, out).Class
}

func main() {
	n, _ := strconv.Atoi(os.Args[1])
	which := os.Args[2]
	only := ""
	if len(os.Args) > 3 {
		only = os.Args[3]
	}
	p := profile(which)
	type key struct {
		v     string
		class string
	}
	var mu sync.Mutex
	counts := map[key]int{}
	examples := map[key]*core.Case{}
	var wg sync.WaitGroup
	sem := make(chan struct{}, 16)
	for i := 0; i < n; i++ {
		wg.Add(1)
		sem <- struct{}{}
		go func(i int) {
			defer wg.Done()
			defer func() { <-sem }()
			c := gen.Generate(uint64(i), p)
			if which == "stw" {
				c = gen.StoreThenWalk(uint64(i))
			}
			for v := mach.Variant(0); v < mach.NumVariants; v++ {
				if only != "" && v.String() != only {
					continue
				}
				cs := &core.Case{Prog: c.Prog, Init: c.Init, Cfg: cfgFor(v, i), Sched: core.Sched{Mode: "identity"}}
				cl := check(cs)
				mu.Lock()
				k := key{v.String(), cl}
				counts[k]++
				if _, ok := examples[k]; !ok && cl != "ok" {
					examples[k] = cs
				}
				mu.Unlock()
			}
		}(i)
	}
	wg.Wait()
	var keys []key
	for k := range counts {
		keys = append(keys, k)
	}
	sort.Slice(keys, func(i, j int) bool {
		if keys[i].v != keys[j].v {
			return keys[i].v < keys[j].v
		}
		return keys[i].class < keys[j].class
	})
	for _, k := range keys {
		fmt.Printf("%-8s %-40s %6d\n", k.v, k.class, counts[k])
		if ex := examples[k]; ex != nil && only != "" {
			m, ev := core.Minimize(ex, k.class, check, 3000)
			ref := isa.Exec(m.Prog, m.Init, 20000, true)
			app, _ := core.Parse(m.Prog)
			out := mach.Run(m.Cfg, app, m.Init, core.BudgetTicks(len(ref.Trace)), nil)
			fmt.Printf("--- minimised (%d evals) cfg=%s: %s\n%s", ev, m.Cfg, core.Compare(ref, out).Detail, m.Prog.Text())
			for r := isa.Reg(1); r < isa.NumRegs; r++ {
				if m.Init.Regs[r] != 0 {
					fmt.Printf("  init %s=%d\n", r, m.Init.Regs[r])
				}
			}
			nz := 0
			for _, b := range m.Init.Mem {
				if b != 0 {
					nz++
				}
			}
			fmt.Printf("  mem %d bytes, %d non-zero\n", len(m.Init.Mem), nz)
		}
	}
}
