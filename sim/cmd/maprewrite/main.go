// maprewrite generates the `go build -overlay` file that puts every
// range-over-map site of majorana behind the verifrt seam (DESIGN.md §2.3).
//
//	maprewrite -repo /repo -out DIR -verifrt /verif/sim/overlay/verifrt.go.txt
//
// writes DIR/overlay.json and the rewritten copies of the affected files.
// /repo itself is not touched.
package main

import (
	"encoding/json"
	"flag"
	"fmt"
	"go/ast"
	"go/build"
	"go/importer"
	"go/parser"
	"go/token"
	"go/types"
	"os"
	"path/filepath"
	"sort"
	"strings"
)

type edit struct {
	start, end int // byte offsets in the file
	text       string
}

func main() {
	repo := flag.String("repo", "/repo", "")
	out := flag.String("out", "", "")
	rt := flag.String("verifrt", "", "")
	flag.Parse()
	if *out == "" || *rt == "" {
		fmt.Fprintln(os.Stderr, "usage: maprewrite -repo R -out DIR -verifrt FILE")
		os.Exit(2)
	}
	if err := os.MkdirAll(*out, 0o755); err != nil {
		fatal(err)
	}
	build.Default.BuildTags = append(build.Default.BuildTags, "verif")
	bctx := build.Default

	var dirs []string
	filepath.Walk(*repo, func(p string, info os.FileInfo, err error) error {
		if err != nil {
			return nil
		}
		if info.IsDir() {
			if strings.HasPrefix(info.Name(), ".") && p != *repo {
				return filepath.SkipDir
			}
			dirs = append(dirs, p)
		}
		return nil
	})
	sort.Strings(dirs)

	replace := map[string]string{}
	site := 0
	var siteLog []string
	fset := token.NewFileSet()
	imp := importer.ForCompiler(fset, "source", nil)
	for _, dir := range dirs {
		pkg, err := bctx.ImportDir(dir, 0)
		if err != nil || len(pkg.GoFiles) == 0 {
			continue
		}
		var files []*ast.File
		var names []string
		for _, f := range pkg.GoFiles {
			path := filepath.Join(dir, f)
			_ = path
			af, err := parser.ParseFile(fset, path, nil, parser.ParseComments)
			if err != nil {
				fatal(err)
			}
			files = append(files, af)
			names = append(names, path)
		}
		info := &types.Info{Types: map[ast.Expr]types.TypeAndValue{}}
		conf := types.Config{Importer: imp, Error: func(error) {}}
		rel, _ := filepath.Rel(*repo, dir)
		conf.Check("github.com/teivah/majorana/"+filepath.ToSlash(rel), fset, files, info)
		for i, af := range files {
			src, err := os.ReadFile(names[i])
			if err != nil {
				fatal(err)
			}
			var edits []edit
			if strings.HasPrefix(filepath.Base(names[i]), "verif_") {
				// harness-side views (snapshots): must not consume schedule choices
				continue
			}
			ast.Inspect(af, func(n ast.Node) bool {
				rs, ok := n.(*ast.RangeStmt)
				if !ok {
					return true
				}
				tv, ok := info.Types[rs.X]
				if !ok || tv.Type == nil {
					return true
				}
				if _, isMap := tv.Type.Underlying().(*types.Map); !isMap {
					return true
				}
				site++
				it := fmt.Sprintf("__vit%d", site)
				off := func(p token.Pos) int { return fset.Position(p).Offset }
				x := string(src[off(rs.X.Pos()):off(rs.X.End())])
				var lhs, rhs []string
				if id, ok := rs.Key.(*ast.Ident); rs.Key != nil && !(ok && id.Name == "_") {
					lhs = append(lhs, string(src[off(rs.Key.Pos()):off(rs.Key.End())]))
					rhs = append(rhs, it+".K")
				}
				if id, ok := rs.Value.(*ast.Ident); rs.Value != nil && !(ok && id.Name == "_") {
					lhs = append(lhs, string(src[off(rs.Value.Pos()):off(rs.Value.End())]))
					rhs = append(rhs, it+".V")
				}
				hdr := fmt.Sprintf("for %s := verifrt.Range(%d, %s); %s.Next(); {", it, site, x, it)
				if len(lhs) > 0 {
					tok := ":="
					if rs.Tok == token.ASSIGN {
						tok = "="
					}
					hdr += fmt.Sprintf(" %s %s %s;", strings.Join(lhs, ", "), tok, strings.Join(rhs, ", "))
				}
				// keep the number of lines: pad with the newlines the original header spanned
				orig := string(src[off(rs.For) : off(rs.Body.Lbrace)+1])
				if pad := strings.Count(orig, "\n") - strings.Count(hdr, "\n"); pad > 0 {
					hdr += strings.Repeat("\n", pad)
				}
				edits = append(edits, edit{off(rs.For), off(rs.Body.Lbrace) + 1, hdr})
				pos := fset.Position(rs.For)
				relf, _ := filepath.Rel(*repo, pos.Filename)
				siteLog = append(siteLog, fmt.Sprintf("%d %s:%d range %s (%s)", site, relf, pos.Line, x, tv.Type.String()))
				return true
			})
			if len(edits) == 0 {
				continue
			}
			// package clause: add the import on the same line
			pkgEnd := fset.Position(af.Name.End()).Offset
			edits = append(edits, edit{pkgEnd, pkgEnd, `; import verifrt "github.com/teivah/majorana/common/verifrt"`})
			sort.Slice(edits, func(a, b int) bool { return edits[a].start > edits[b].start })
			outSrc := src
			for _, e := range edits {
				outSrc = append(append(append([]byte{}, outSrc[:e.start]...), e.text...), outSrc[e.end:]...)
			}
			relf, _ := filepath.Rel(*repo, names[i])
			dst := filepath.Join(*out, strings.ReplaceAll(relf, string(filepath.Separator), "__"))
			if err := os.WriteFile(dst, outSrc, 0o644); err != nil {
				fatal(err)
			}
			replace[names[i]] = dst
		}
	}
	replace[filepath.Join(*repo, "common", "verifrt", "verifrt.go")] = *rt
	data, _ := json.MarshalIndent(map[string]any{"Replace": replace}, "", " ")
	if err := os.WriteFile(filepath.Join(*out, "overlay.json"), data, 0o644); err != nil {
		fatal(err)
	}
	os.WriteFile(filepath.Join(*out, "sites.txt"), []byte(strings.Join(siteLog, "\n")+"\n"), 0o644)
	fmt.Printf("maprewrite: %d range-over-map sites in %d files\n", site, len(replace)-1)
}

func fatal(err error) {
	fmt.Fprintln(os.Stderr, "maprewrite:", err)
	os.Exit(2)
}
