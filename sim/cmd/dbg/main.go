package main

import (
	"fmt"
	"os"
	"strconv"

	"github.com/teivah/majorana/risc"
	"verifsim/internal/isa"
	"verifsim/internal/mach"
)

// usage: dbg variant eu wu cores memBytes file.asm [reg=val ...]
func main() {
	v, _ := mach.ParseVariant(os.Args[1])
	eu, _ := strconv.Atoi(os.Args[2])
	wu, _ := strconv.Atoi(os.Args[3])
	cores, _ := strconv.Atoi(os.Args[4])
	mem, _ := strconv.Atoi(os.Args[5])
	src, _ := os.ReadFile(os.Args[6])
	app, err := risc.Parse(string(src))
	if err != nil {
		panic(err)
	}
	vm := mach.New(mach.Config{V: v, EU: eu, WU: wu, Cores: cores}, mem, os.Getenv("DEBUG") != "")
	init := &isa.State{Mem: make([]int8, mem)}
	for _, a := range os.Args[7:] {
		var name string
		var val int
		for i := range a {
			if a[i] == '=' {
				name = a[:i]
				val, _ = strconv.Atoi(a[i+1:])
			}
		}
		for r := isa.Reg(0); r < isa.NumRegs; r++ {
			if r.String() == name {
				init.Regs[r] = int32(val)
			}
		}
	}
	budget := 3000
	if b, err := strconv.Atoi(os.Getenv("BUDGET")); err == nil {
		budget = b
	}
	out := mach.RunOn(vm, app, init, budget, nil)
	if os.Getenv("MEMAT") != "" {
		a, _ := strconv.Atoi(os.Getenv("MEMAT"))
		fmt.Printf("mem[%d..]=%v\n", a, out.Mem[a:a+4])
	}
	fmt.Printf("cycles=%d err=%q panic=%q loc=%s budget=%v ticks=%d\n", out.Cycles, out.Err, out.Panic, out.PanicLoc, out.Budget, out.Ticks)
	for r := isa.Reg(0); r < isa.NumRegs; r++ {
		if out.Regs[r] != 0 {
			fmt.Printf(" %s=%d", r, out.Regs[r])
		}
	}
	fmt.Println()
}
