//go:build verif

// Package coh evaluates the MSI coherence invariants of property C06 on a
// per-cycle snapshot (comp.VerifSnap, a read-only view exported by the
// verif-tagged hooks of mvp7-0, mvp7-1 and mvp8-0).
package coh

import (
	"fmt"
	"sort"

	"github.com/teivah/majorana/proc/comp"
)

// Violation of one invariant.
type Violation struct {
	Inv    string // I1..I5, INCL
	Detail string
}

func (v *Violation) Error() string { return v.Inv + ": " + v.Detail }

const (
	invalid  = 0
	shared   = 1
	modified = 2
)

func mix(z uint64) uint64 {
	z += 0x9e3779b97f4a7c15
	z = (z ^ (z >> 30)) * 0xbf58476d1ce4e5b9
	z = (z ^ (z >> 27)) * 0x94d049bb133111eb
	return z ^ (z >> 31)
}

// Vector is an order-independent hash of the global coherence vector (the
// distinct-state measure): per (core, line) state, outstanding commands, lock
// counters and busy controllers. Line numbers, not data.
func Vector(s *comp.VerifSnap) uint64 {
	ls := uint64(max32(s.LineSize, 1))
	var h uint64
	for _, st := range s.States {
		if st.State != invalid {
			h += mix(1<<60 | uint64(st.Core)<<40 | (uint64(uint32(st.Addr))/ls)<<8 | uint64(st.State))
		}
	}
	for _, c := range s.Commands {
		if !c.Done {
			h += mix(2<<60 | uint64(c.Core)<<40 | (uint64(uint32(c.Addr))/ls)<<8 | uint64(c.Request))
		}
	}
	for _, m := range s.Sems {
		if m.Read != 0 || m.Write != 0 {
			h += mix(3<<60 | (uint64(uint32(m.Addr))/ls)<<16 | uint64(uint8(m.Read))<<8 | uint64(uint8(m.Write)))
		}
	}
	for i, c := range s.Cores {
		var b uint64
		if c.ReadBusy {
			b |= 1
		}
		if c.WriteBusy {
			b |= 2
		}
		if c.SnoopBusy {
			b |= 4
		}
		if b != 0 {
			h += mix(4<<60 | uint64(i)<<8 | b)
		}
	}
	return h
}

// Fingerprint hashes everything Check looks at except main memory: protocol
// state AND the bytes of every L1/L3 line. If it is unchanged since a tick
// that passed Check and no controller was busy, the invariants still hold.
func Fingerprint(s *comp.VerifSnap) uint64 {
	h := Vector(s)
	for i, c := range s.Cores {
		for _, l := range c.Lines {
			x := uint64(i)<<48 | uint64(uint32(l.Base))
			for _, b := range l.Data {
				x = x*1099511628211 ^ uint64(uint8(b))
			}
			h += mix(x)
		}
		h += mix(5<<60 | uint64(i)<<32 | uint64(len(c.Resident)))
	}
	for _, l := range s.L3 {
		x := uint64(7)<<56 | uint64(uint32(l.Base))
		for _, b := range l.Data {
			x = x*1099511628211 ^ uint64(uint8(b))
		}
		h += mix(x)
	}
	return h
}

func max32(a, b int32) int32 {
	if a > b {
		return a
	}
	return b
}

// Check evaluates I1..I5 (and L3 inclusion for mvp8) on one snapshot.
func Check(s *comp.VerifSnap) *Violation {
	ls := s.LineSize
	type key struct {
		core int
		addr int32
	}
	state := map[key]int32{}
	lines := map[int32]bool{}
	for _, st := range s.States {
		state[key{st.Core, st.Addr}] = st.State
		lines[st.Addr] = true
	}
	locked := map[int32]bool{}
	for _, m := range s.Sems {
		// I5
		if m.Read < 0 || m.Write < 0 {
			return &Violation{"I5", fmt.Sprintf("line %d: lock counters read=%d write=%d", m.Addr, m.Read, m.Write)}
		}
		if m.Read != 0 || m.Write != 0 {
			locked[m.Addr] = true
		}
	}
	pendingCmd := map[key]bool{}
	pendingLine := map[int32]bool{}
	for _, c := range s.Commands {
		if !c.Done {
			pendingCmd[key{c.Core, c.Addr}] = true
			pendingLine[c.Addr] = true
		}
	}
	// I4 and residency
	resident := map[key][]int8{}
	for ci, c := range s.Cores {
		seen := map[int32]bool{}
		for _, l := range c.Resident {
			if l.Base%ls != 0 {
				return &Violation{"I4", fmt.Sprintf("core %d holds a line at %d, not a multiple of the line size %d", ci, l.Base, ls)}
			}
			if int32(len(l.Data)) != ls {
				return &Violation{"I4", fmt.Sprintf("core %d line %d has %d bytes, line size is %d", ci, l.Base, len(l.Data), ls)}
			}
			if seen[l.Base] {
				return &Violation{"I4", fmt.Sprintf("core %d holds two copies of line %d", ci, l.Base)}
			}
			seen[l.Base] = true
			resident[key{ci, l.Base}] = l.Data
			lines[l.Base] = true
		}
	}
	// L3 view
	l3 := map[int32][]int8{}
	if s.L3LineSize > 0 {
		for _, l := range s.L3 {
			l3[l.Base] = l.Data
		}
	}
	nextLevel := func(addr int32) []int8 {
		if s.L3LineSize > 0 {
			base := addr - addr%s.L3LineSize
			if d, ok := l3[base]; ok && int(addr-base)+int(ls) <= len(d) {
				return d[addr-base : addr-base+ls]
			}
		}
		if int(addr) >= len(s.Memory) {
			return nil
		}
		end := int(addr) + int(ls)
		if end > len(s.Memory) {
			end = len(s.Memory)
		}
		return s.Memory[addr:end]
	}
	var addrs []int32
	for a := range lines {
		addrs = append(addrs, a)
	}
	sort.Slice(addrs, func(i, j int) bool { return addrs[i] < addrs[j] })
	for _, a := range addrs {
		nMod, nSh := 0, 0
		for ci := range s.Cores {
			switch state[key{ci, a}] {
			case modified:
				nMod++
			case shared:
				nSh++
			}
		}
		// I1
		if nMod > 1 {
			return &Violation{"I1", fmt.Sprintf("line %d is Modified on %d cores", a, nMod)}
		}
		if nMod == 1 && nSh > 0 {
			return &Violation{"I1", fmt.Sprintf("line %d is Modified on one core and Shared on %d other(s)", a, nSh)}
		}
		stable := !locked[a] && !pendingLine[a]
		for ci := range s.Cores {
			st := state[key{ci, a}]
			data, res := resident[key{ci, a}]
			// I2: a Shared line equals the next level
			if st == shared && res {
				if nl := nextLevel(a); nl != nil {
					for i := range nl {
						if data[i] != nl[i] {
							return &Violation{"I2", fmt.Sprintf("core %d: Shared line %d differs from the next level at byte %d (%d vs %d)", ci, a, i, data[i], nl[i])}
						}
					}
				}
			}
			// I3: resident <=> state != Invalid, outside a transfer in progress
			if stable && !pendingCmd[key{ci, a}] && !s.Cores[ci].ReadBusy && !s.Cores[ci].WriteBusy && !s.Cores[ci].SnoopBusy {
				if res && st == invalid {
					return &Violation{"I3", fmt.Sprintf("core %d holds line %d in L1 but its state is Invalid", ci, a)}
				}
				if !res && st != invalid {
					return &Violation{"I3", fmt.Sprintf("core %d has state %d for line %d but does not hold it in L1", ci, st, a)}
				}
			}
		}
	}
	return nil
}
