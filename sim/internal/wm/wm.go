//go:build verifoverlay

// Package wm holds the whole-machine simulations (DESIGN §5: C01, C03, C04,
// C05, C07, C09, C10, C12): seeded programs on the real variants under seeded
// map-order schedules, judged against the sequential reference model.
package wm

import (
	"encoding/json"
	"fmt"
	"os"
	"sort"
	"strings"

	"verifsim/internal/api"
	"verifsim/internal/core"
	"verifsim/internal/findings"
	"verifsim/internal/gen"
	"verifsim/internal/isa"
	"verifsim/internal/mach"
	"verifsim/internal/rng"
)

// item is one generated workload plus what the property's oracle needs.
type item struct {
	c     *gen.Case
	marks []int
	aux   []int
	sub   string // sub-profile name, for counters
	// only restricts the case to these variants (nil = the check's list)
	only []mach.Variant
}

// judgeFn evaluates one fully determined case for a property and returns the
// violation class ("ok" if none, "" if the case is not a valid input), a
// detail string and run statistics.
type judgeFn func(w *check, c *core.Case) (class, detail string, st runStats)

type runStats struct {
	cycles                 int64
	probes                 [32]int
	sched                  core.SchedStats
	executed               int
	feat                   uint64        // distinctness signature (0 = trivial)
	pairs                  int           // C12: state pairs compared
	invChecked, invSkipped int           // C06: ticks with a full invariant evaluation / skipped as unchanged
	verdict                *core.Verdict // the comparison behind a mismatch class (nil otherwise)
	other                  bool          // twin oracles: the failure is not attributable to this property
}

type check struct {
	id       string
	quick    int
	thorough int
	gen      func(seed uint64, idx int, tier string) item
	variants []mach.Variant
	// perCase is how many configurations each generated case is run on
	// (0 = all variants of the list, one configuration each).
	perCase int
	judge   judgeFn
	desc    api.Description
	post    func(res *api.Result)
}

func (w *check) ID() string { return w.id }
func (w *check) Runs(tier string) int {
	if tier == "thorough" {
		return w.thorough
	}
	return w.quick
}
func (w *check) Describe() api.Description { return w.desc }

// payload is the replay file content of whole-machine checks.
type payload struct {
	Program  *isa.Program     `json:"program"`
	Assembly []string         `json:"assembly"`
	Regs     map[string]int32 `json:"init_registers"`
	MemSize  int              `json:"memory_bytes"`
	Mem      map[string]int8  `json:"init_memory_nonzero,omitempty"`
	Config   mach.Config      `json:"config"`
	Sched    core.Sched       `json:"schedule"`
	Marks    []int            `json:"marks,omitempty"`
	Aux      []int            `json:"aux,omitempty"`
	Expected string           `json:"expected,omitempty"`
	Observed string           `json:"observed,omitempty"`
}

func encodeCase(c *core.Case, expected, observed string) json.RawMessage {
	p := payload{Program: c.Prog, MemSize: len(c.Init.Mem), Config: c.Cfg, Sched: c.Sched, Marks: c.Marks, Aux: c.Aux,
		Regs: map[string]int32{}, Mem: map[string]int8{}, Expected: expected, Observed: observed}
	for _, l := range splitLines(c.Prog.Text()) {
		p.Assembly = append(p.Assembly, l)
	}
	for r := isa.Reg(1); r < isa.NumRegs; r++ {
		if v := c.Init.Regs[r]; v != 0 {
			p.Regs[r.String()] = v
		}
	}
	for i, v := range c.Init.Mem {
		if v != 0 {
			p.Mem[fmt.Sprint(i)] = v
		}
	}
	b, _ := json.Marshal(p)
	return b
}

func splitLines(s string) []string {
	var out []string
	cur := ""
	for _, ch := range s {
		if ch == '\n' {
			out = append(out, cur)
			cur = ""
		} else {
			cur += string(ch)
		}
	}
	if cur != "" {
		out = append(out, cur)
	}
	return out
}

func decodeCase(data json.RawMessage) (*core.Case, error) {
	var p payload
	if err := json.Unmarshal(data, &p); err != nil {
		return nil, err
	}
	if p.Program == nil {
		if len(p.Assembly) == 0 {
			return nil, fmt.Errorf("payload has neither program nor assembly")
		}
		prog, err := isa.ParseText(strings.Join(p.Assembly, "\n"))
		if err != nil {
			return nil, err
		}
		p.Program = prog
	}
	if p.Program.Labels == nil {
		p.Program.Labels = map[string]int{}
	}
	st := &isa.State{Mem: make([]int8, p.MemSize)}
	for name, v := range p.Regs {
		found := false
		for r := isa.Reg(0); r < isa.NumRegs; r++ {
			if r.String() == name {
				st.Regs[r] = v
				found = true
			}
		}
		if !found {
			return nil, fmt.Errorf("unknown register %q", name)
		}
	}
	for k, v := range p.Mem {
		var i int
		if _, err := fmt.Sscan(k, &i); err != nil || i < 0 || i >= len(st.Mem) {
			return nil, fmt.Errorf("bad memory index %q", k)
		}
		st.Mem[i] = v
	}
	return &core.Case{Prog: p.Program, Init: st, Cfg: p.Config.Normalize(), Sched: p.Sched, Marks: p.Marks, Aux: p.Aux}, nil
}

// execute runs one case on the real machine under its schedule.
func execute(c *core.Case, ref *isa.Result) (*mach.Outcome, core.SchedStats, error) {
	app, err := core.Parse(c.Prog)
	if err != nil {
		return nil, core.SchedStats{}, err
	}
	done := core.InstallSched(c.Sched)
	out := mach.Run(c.Cfg, app, c.Init, core.BudgetTicks(len(ref.Trace))/budgetDivisor, nil)
	st := done()
	return out, st, nil
}

// budgetDivisor shortens the tick budget while a hang is being minimised (the
// minimised case is re-judged under the full budget before it is reported).
var budgetDivisor = 1

// refOf runs the reference; ok=false if the case is not a valid input.
func refOf(c *core.Case, allowErrors bool) (*isa.Result, bool) {
	if len(c.Prog.Insts) == 0 || len(c.Prog.Insts) >= 250 {
		return nil, false
	}
	ref := isa.Exec(c.Prog, c.Init, 20000, true)
	if !ref.End.WellFormed() {
		return nil, false
	}
	if ref.End.DefinedError() && !allowErrors {
		return nil, false
	}
	return ref, true
}

func statsOf(out *mach.Outcome, ss core.SchedStats, ref *isa.Result) runStats {
	st := runStats{cycles: int64(out.Ticks), sched: ss, executed: len(ref.Trace)}
	for i, n := range out.Probes {
		st.probes[i] = n
	}
	return st
}

// configFor rotates parallelism with the run index (DESIGN §5/C01).
func configFor(v mach.Variant, idx int, r *rng.R) mach.Config {
	par := 1 + idx%4
	c := mach.Config{V: v, EU: par, WU: 1 + (idx/4)%4, Cores: par}
	if r != nil && r.Chance(1, 4) {
		c.EU, c.WU, c.Cores = r.Range(1, 4), r.Range(1, 4), r.Range(1, 4)
	}
	if r != nil && v >= mach.MVP70 && r.Chance(1, 4) {
		// single-core runs of the coherent variants: the cache hierarchy without cross-core effects
		c.Cores = 1
	}
	return c.Normalize()
}

var probeNames = []string{"flush", "forward", "rename", "commit", "rollback", "btb_hit", "btb_miss", "seq_drop",
	"l1_evict", "l3_evict", "snoop_evict", "snoop_writeback", "lock_wait", "cancel_locked", "pending_fetch_wait", "msi_refresh"}

// Run explores run indices [From,To).
func (w *check) Run(b api.Batch) *api.Result {
	res := api.NewResult()
	kf := findings.Default()
	minimised := map[string]int{}
	for idx := b.From; idx < b.To; idx++ {
		seed := rng.Derive(b.Seed, uint64(idx))
		it := w.gen(seed, idx, b.Tier)
		r := rng.New(rng.Derive(seed, 0x5ced))
		res.Count("programs", 1)
		res.Count("profile:"+it.sub, 1)
		for _, t := range it.c.Tags {
			res.Count("idiom:"+t, 1)
		}
		vs := w.variants
		if it.only != nil {
			vs = it.only
		}
		if w.perCase > 0 && w.perCase < len(vs) {
			// a seeded subset, rotating so that every variant is visited equally often
			start := idx % len(vs)
			sub := make([]mach.Variant, 0, w.perCase)
			for k := 0; k < w.perCase; k++ {
				sub = append(sub, vs[(start+k*(len(vs)/w.perCase+1))%len(vs)])
			}
			vs = sub
		}
		for _, v := range vs {
			cs := &core.Case{Prog: it.c.Prog, Init: it.c.Init, Cfg: configFor(v, idx, r), Marks: it.marks, Aux: it.aux}
			switch r.Intn(4) {
			case 0:
				cs.Sched = core.Sched{Mode: "identity"}
			case 1:
				cs.Sched = core.Sched{Mode: "reverse"}
			default:
				cs.Sched = core.Sched{Mode: "seeded", Seed: r.U64()}
			}
			class, detail, st := w.judge(w, cs)
			if class == "" {
				res.Count("invalid_for_property", 1)
				continue
			}
			res.Evaluations++
			res.SimCycles += st.cycles
			res.Count("runs:"+v.String(), 1)
			res.Count("sched:"+cs.Sched.Mode, 1)
			res.Count("sched_choice_points", int64(st.sched.Visits))
			res.Count("sched_reversed", int64(st.sched.Reversed))
			res.Count("sched_shuffled", int64(st.sched.Shuffled))
			if st.sched.Ties > 0 {
				res.Count("HARNESS_nonreplayable_map_order_ties", int64(st.sched.Ties))
			}
			for i, n := range probeNames {
				if st.probes[i] > 0 {
					res.Count("fired:"+n, int64(st.probes[i]))
				}
			}
			if st.invChecked > 0 {
				res.Count("ticks_invariants_evaluated", int64(st.invChecked))
				res.Count("ticks_unchanged_idle_skipped", int64(st.invSkipped))
			}
			if st.pairs > 0 {
				res.Count("value_independence_pairs_compared", int64(st.pairs))
			}
			if st.other {
				res.Count("fails_with_and_without_the_fault:other_defect:"+v.String(), 1)
			}
			if st.feat != 0 {
				res.Seen(rng.Derive(st.feat, uint64(v), uint64(cs.Cfg.Parallelism())))
			}
			if len(res.Samples) < 3 && idx%7 == 3 && class == core.OK {
				res.AddSample(map[string]any{"run_index": idx, "config": cs.Cfg.String(), "schedule": cs.Sched,
					"assembly": splitLines(cs.Prog.Text()), "executed_instructions": st.executed, "ticks": st.cycles, "idioms": it.c.Tags}, 3)
			}
			if class == core.OK {
				continue
			}
			// a violation: known finding?
			if id := matchTrigger(w.id, kf, cs, class, st.verdict); id != "" {
				res.Count("in_known_finding_region_failing:"+id+":"+v.String(), 1)
				res.Violations = append(res.Violations, api.Violation{Property: w.id, Class: class, Detail: detail, RunIndex: idx, Seed: b.Seed, KnownFinding: id})
				continue
			}
			res.Count("violation:"+class, 1)
			key := v.String() + "/" + class
			mc := cs
			if minimised[key] < 2 {
				minimised[key]++
				chk := func(c *core.Case) string {
					cl, _, cst := w.judge(w, c)
					if cl == class && matchTrigger(w.id, kf, c, cl, cst.verdict) != "" {
						return "" // do not shrink into a known-finding region
					}
					return cl
				}
				evals := 1500
				if class == core.Budget {
					budgetDivisor, evals = 8, 300
				}
				mc, _ = core.Minimize(cs, class, chk, evals)
				budgetDivisor = 1
				if cl, d, _ := w.judge(w, mc); cl == class {
					detail = d
				} else {
					mc = cs // the shortened budget misjudged a slow run: keep the original
				}
			}
			res.Violations = append(res.Violations, api.Violation{Property: w.id, Class: class + "@" + v.String(), Detail: detail,
				RunIndex: idx, Seed: b.Seed, Replay: encodeCase(mc, "", detail)})
		}
	}
	if w.post != nil {
		w.post(res)
	}
	// violations tagged as known findings carry no payload; keep at most a few
	sort.SliceStable(res.Violations, func(i, j int) bool { return res.Violations[i].KnownFinding < res.Violations[j].KnownFinding })
	kept := res.Violations[:0]
	perKF := map[string]int{}
	for _, v := range res.Violations {
		if v.KnownFinding != "" {
			perKF[v.KnownFinding]++
			if perKF[v.KnownFinding] > 2 {
				continue
			}
		}
		kept = append(kept, v)
	}
	res.Violations = kept
	return res
}

// Replay re-executes a replay payload.
func (w *check) Replay(data json.RawMessage) (*api.Violation, error) {
	c, err := decodeCase(data)
	if err != nil {
		return nil, err
	}
	class, detail, _ := w.judge(w, c)
	if class == "" {
		return nil, fmt.Errorf("replay case is not a valid input for %s (reference rejects it)", w.id)
	}
	if class == core.OK {
		return nil, nil
	}
	return &api.Violation{Property: w.id, Class: class + "@" + c.Cfg.V.String(), Detail: detail, Replay: data}, nil
}

// Explain tells which open known finding explains a replayed violation.
func (w *check) Explain(data json.RawMessage) (string, error) {
	c, err := decodeCase(data)
	if err != nil {
		return "", err
	}
	class, _, st := w.judge(w, c)
	if class == "" || class == core.OK {
		return "", nil
	}
	id := matchTrigger(w.id, findings.Default(), c, class, st.verdict)
	if os.Getenv("VERIF_DEBUG_KF") != "" {
		f := featuresOf(c)
		fmt.Fprintf(os.Stderr, "class=%s verdict=%+v\nconflict=%+v\nshadow=%+v\nslow=%+v\nwar=%+v\nring=%+v\n", class, st.verdict, f.tConflict, f.tShadow, f.tSlowWaw, f.tWar, f.tRing)
	}
	return id, nil
}

// traceSig is the distinctness signature of an executed path: the sequence of
// executed op classes, hashed. Trivial (0) if fewer than 3 instructions ran.
func traceSig(p *isa.Program, ref *isa.Result) uint64 {
	if len(ref.Trace) < 3 {
		return 0
	}
	h := uint64(1469598103934665603)
	for _, st := range ref.Trace {
		in := p.Insts[st.Idx]
		x := uint64(in.Op)<<1 | b2u(st.Taken)
		h ^= x
		h *= 1099511628211
	}
	if h == 0 {
		h = 1
	}
	return h
}

func b2u(b bool) uint64 {
	if b {
		return 1
	}
	return 0
}

// judgeRef is the plain refinement oracle: machine == reference.
func judgeRef(w *check, c *core.Case) (string, string, runStats) {
	ref, ok := refOf(c, false)
	if !ok {
		return "", "", runStats{}
	}
	out, ss, err := execute(c, ref)
	if err != nil {
		return core.ParseError, err.Error(), runStats{}
	}
	st := statsOf(out, ss, ref)
	st.feat = traceSig(c.Prog, ref)
	v := core.Compare(ref, out)
	st.verdict = &v
	return v.Class, v.Detail, st
}
