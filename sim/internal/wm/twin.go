//go:build verifoverlay

package wm

import (
	"verifsim/internal/core"
	"verifsim/internal/isa"
)

// judgeShadow is C03's sharpened oracle: P versus its shadow-blanked twin.
func judgeShadow(w *check, c *core.Case) (string, string, runStats) {
	ref, ok := refOf(c, false)
	if !ok || len(c.Marks) < 2 || len(c.Marks)%2 != 0 {
		return "", "", runStats{}
	}
	inShadow := func(i int) bool {
		for k := 0; k+1 < len(c.Marks); k += 2 {
			if i >= c.Marks[k] && i < c.Marks[k+1] {
				return true
			}
		}
		return false
	}
	any := false
	for k := 0; k+1 < len(c.Marks); k += 2 {
		if c.Marks[k] < c.Marks[k+1] {
			any = true
		}
	}
	if !any {
		return "", "", runStats{}
	}
	for _, st := range ref.Trace {
		if inShadow(int(st.Idx)) {
			return "", "", runStats{} // the shadow is on the executed path: not a C03 input
		}
	}
	out, ss, err := execute(c, ref)
	if err != nil {
		return core.ParseError, err.Error(), runStats{}
	}
	st := statsOf(out, ss, ref)
	if out.Probes[0] > 0 { // a flush fired
		st.feat = traceSig(c.Prog, ref)
	}
	v := core.Compare(ref, out)
	if v.OK() {
		return core.OK, "", st
	}
	// twin: every shadow instruction replaced by nop
	twin := c.Clone()
	for i := range twin.Prog.Insts {
		if inShadow(i) {
			twin.Prog.Insts[i] = isa.Inst{Op: isa.NOP}
		}
	}
	tref, ok := refOf(twin, false)
	if !ok {
		return "", "", runStats{}
	}
	tout, _, err := execute(twin, tref)
	if err != nil {
		return core.ParseError, err.Error(), runStats{}
	}
	if tv := core.Compare(tref, tout); !tv.OK() {
		st.other = true // fails with and without the shadow: some other defect (C01/C04/C05)
		return core.OK, "", st
	}
	st.verdict = &v
	return "shadow:" + v.Class, v.Detail + " (the shadow-blanked twin agrees with the reference)", st
}

// drained builds C09's twin: nops and a dependent use of every tail result
// inserted before the exit sequence.
func drained(c *core.Case) *core.Case {
	if len(c.Marks) < 1 {
		return nil
	}
	pos := c.Marks[0]
	if pos < 0 || pos > len(c.Prog.Insts) {
		return nil
	}
	var ins []isa.Inst
	for i := 0; i < 16; i++ {
		ins = append(ins, isa.Inst{Op: isa.NOP})
	}
	seen := map[int]bool{}
	for _, r := range c.Aux {
		if r <= 0 || r >= int(isa.NumRegs) || seen[r] {
			continue
		}
		seen[r] = true
		ins = append(ins, isa.Inst{Op: isa.ADD, Rd: isa.Reg(r), Rs1: isa.Reg(r), Rs2: isa.Zero})
	}
	t := c.Clone()
	p := t.Prog
	p.Insts = append(append(append([]isa.Inst{}, p.Insts[:pos]...), ins...), p.Insts[pos:]...)
	for l, at := range p.Labels {
		if at > pos {
			p.Labels[l] = at + len(ins)
		}
	}
	return t
}

// judgeTail is C09's sharpened oracle: P versus its drained twin.
func judgeTail(w *check, c *core.Case) (string, string, runStats) {
	ref, ok := refOf(c, false)
	if !ok {
		return "", "", runStats{}
	}
	if len(c.Marks) == 0 {
		// the exit point: the first instruction of the exit sequence = the last
		// executed instruction's position if it is ret/jump, else the end
		c.Marks = []int{exitPos(c.Prog, ref)}
	}
	out, ss, err := execute(c, ref)
	if err != nil {
		return core.ParseError, err.Error(), runStats{}
	}
	st := statsOf(out, ss, ref)
	st.feat = traceSig(c.Prog, ref)
	v := core.Compare(ref, out)
	if v.OK() {
		return core.OK, "", st
	}
	twin := drained(c)
	if twin == nil {
		return "", "", runStats{}
	}
	tref, ok := refOf(twin, false)
	if !ok {
		return "", "", runStats{}
	}
	tout, _, err := execute(twin, tref)
	if err != nil {
		return core.ParseError, err.Error(), runStats{}
	}
	if tv := core.Compare(tref, tout); !tv.OK() {
		st.other = true
		return core.OK, "", st
	}
	st.verdict = &v
	return "exit:" + v.Class, v.Detail + " (the drained twin agrees with its reference)", st
}

// exitPos is the index of the instruction that ends the reference execution
// (ret, or the jump/branch that leaves the program), or len(Insts) for fall-through.
func exitPos(p *isa.Program, ref *isa.Result) int {
	if len(ref.Trace) == 0 {
		return len(p.Insts)
	}
	last := ref.Trace[len(ref.Trace)-1]
	switch ref.ExitKind {
	case 0, 2:
		return int(last.Idx)
	}
	return len(p.Insts)
}
