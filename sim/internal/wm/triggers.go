//go:build verifoverlay

package wm

import (
	"verifsim/internal/core"
	"verifsim/internal/findings"
)

// trigger is the executable part of an open known finding of the whole-machine
// checks (DESIGN §7.2): a predicate over (program, reference trace, variant,
// configuration, violation class) and nothing the code under test can influence.
type trigger struct {
	id    string
	props []string // properties the finding is listed under
	match func(c *core.Case, f *features, class string) bool
}

var triggers []trigger

// matchTrigger returns the id of the first OPEN known finding of property prop
// whose trigger holds for c, or "".
func matchTrigger(prop string, kf *findings.Set, c *core.Case, class string) string {
	var f *features
	for i := range triggers {
		t := &triggers[i]
		listed := false
		for _, p := range t.props {
			if p == prop {
				listed = true
			}
		}
		if !listed || !kf.IsOpen(prop, t.id) {
			continue
		}
		if f == nil {
			f = featuresOf(c)
			if f == nil {
				return ""
			}
		}
		if t.match(c, f, class) {
			return t.id
		}
	}
	return ""
}
