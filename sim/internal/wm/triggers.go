//go:build verifoverlay

package wm

import (
	"fmt"
	"github.com/teivah/majorana/proc/comp"
	"os"
	"strings"

	"verifsim/internal/core"
	"verifsim/internal/findings"
	"verifsim/internal/isa"
	"verifsim/internal/mach"
)

// trigger is the executable part of an open known finding of the whole-machine
// checks (DESIGN §7.2): a predicate over (program, reference trace, variant,
// configuration) that says WHAT the known defect can make wrong (which
// registers, which memory lines, or which failure class). A violation is
// attributed to the finding only if every mismatch lies inside that set, so an
// unrelated wrong register or memory line in the same run is still reported.
// Nothing in a trigger depends on what the machine under test did.
type trigger struct {
	id    string
	props []string // properties the finding is listed under
	match func(c *core.Case, f *features, class string, v *core.Verdict) bool
}

// baseClass strips the twin-oracle prefix ("shadow:", "exit:").
func baseClass(class string) string {
	class = strings.TrimPrefix(class, "shadow:")
	return strings.TrimPrefix(class, "exit:")
}

func isMismatch(class string) bool {
	b := baseClass(class)
	return b == core.RegMismatch || b == core.MemMismatch || b == "value-dependent-cycles"
}

var wmProps = []string{"C01", "C03", "C04", "C05", "C06", "C07", "C09", "C10", "C12"}

var triggers = []trigger{
	{
		// MVP-6.0's flush (cpu.go, "TODO Same checks as in MVP 6.1") resets every
		// execute unit and cleans the buses without looking at instruction age:
		// OLDER work still in flight on another unit is dropped, younger work
		// survives: wrong results anywhere, hangs and out-of-range stores.
		id: "KF-W1", props: wmProps,
		match: func(c *core.Case, f *features, class string, v *core.Verdict) bool {
			// with one execute unit older work is still in flight at a flush only
			// behind write-bus back-pressure (a store keeps the write unit busy)
			return c.Cfg.V == mach.MVP60 && (c.Cfg.EU >= 2 || f.stores >= 1) && f.redirects >= 1
		},
	},
	{
		// MVP-4..6.3: memory dependences are not tracked; a store that misses the
		// cache waits on the write bus / in a write unit (MVP-4/5: behind earlier
		// stores; MVP-6.x: for the whole memory latency) while a load of that line
		// reads / caches stale memory, and the stale line is written back over the
		// store at the end of the run. Explains: the conflicting lines and what is
		// loaded from them.
		id: "KF-W2", props: wmProps,
		match: func(c *core.Case, f *features, class string, v *core.Verdict) bool {
			vv := c.Cfg.V
			return vv >= mach.MVP4 && vv <= mach.MVP63 && f.tConflict.explainsClass(class, v)
		},
	},
	{
		// MVP-6.1+: instructions in the shadow of a taken conditional branch whose
		// operand is slow start executing. 6.1 has no rollback; on 6.1/6.2 a
		// wrong-path instruction still in an execute unit survives the flush; 6.2
		// rolls back through one slot per register; stores are never rolled back;
		// and a younger branch/jump inside the shadow that resolves first commits
		// the older shadow writes (one shared expectation in the branch unit).
		// Explains: the destination registers of the static shadow (and what is
		// computed from them), any memory if the shadow stores.
		id: "KF-W3", props: wmProps,
		match: func(c *core.Case, f *features, class string, v *core.Verdict) bool {
			vv := c.Cfg.V
			if vv >= mach.MVP61 && c.Cfg.Parallelism() >= 2 && f.takenBranches >= 1 && f.shadowHasTrap && baseClass(class) == core.Budget {
				// a branch or jump inside the shadow overwrites the single pending
				// expectation of the branch unit: the older branch never redirects
				return true
			}
			if vv < mach.MVP61 || f.takenBranches == 0 || !f.tShadow.explainsClass(class, v) {
				return false
			}
			if vv <= mach.MVP62 {
				return f.shadowHasWork
			}
			return (f.shadowHasWork && f.shadowHasTrap) || f.shadowHasStore
		},
	},
	{
		// MVP-6.3/7.x/8: two writers of one register are both renamed; when a
		// commit/rollback (conditional branch) or the end of the run falls between
		// their completions (the older one is a load, waits for a load, or is held
		// up by write-bus back-pressure), the older value lands last. Explains:
		// that register and what is computed from it.
		id: "KF-W4", props: wmProps,
		match: func(c *core.Case, f *features, class string, v *core.Verdict) bool {
			return c.Cfg.V >= mach.MVP63 && f.tSlowWaw.explainsClass(class, v)
		},
	},
	{
		// MVP-6.1+ with two or more units: a conditional branch waiting for a slow
		// operand (forwarded from a load) lets younger instructions run ahead; one
		// that raises an error (div/rem by zero, undefined label) fails the run at once.
		id: "KF-W7", props: wmProps,
		match: func(c *core.Case, f *features, class string, v *core.Verdict) bool {
			return c.Cfg.V >= mach.MVP61 && c.Cfg.Parallelism() >= 2 && f.takenBranches >= 1 && f.shadowHasErrTrap &&
				baseClass(class) == core.UnexpectedError
		},
	},
	{
		// MVP-6.3/7.x/8: a conditional branch commits the renamed registers while
		// an OLDER instruction still waits for a load (or is a load waiting for its
		// line); a younger writer of one of its source registers becomes visible
		// to it. Explains: what that instruction writes (any memory if it is a
		// store); an address computed from the wrong base can also be out of range.
		id: "KF-W8", props: wmProps,
		match: func(c *core.Case, f *features, class string, v *core.Verdict) bool {
			if c.Cfg.V < mach.MVP63 || !f.warLoad || f.condBranches == 0 {
				return false
			}
			b := baseClass(class)
			if strings.HasPrefix(b, "panic:risc.(*Context).WriteMemory") || strings.HasPrefix(b, "panic:proc/mvp") && strings.Contains(b, "fetchCacheLine") {
				return true
			}
			return f.tWar.explainsClass(class, v)
		},
	},
	{
		// MVP-7.x/8 with two or more cores: the per-line lock serialises the
		// cores but not in program order; a store and another access to the
		// same line issued to different cores can be performed out of order.
		id: "KF-W9", props: wmProps,
		match: func(c *core.Case, f *features, class string, v *core.Verdict) bool {
			return c.Cfg.V >= mach.MVP70 && c.Cfg.Cores >= 2 && f.tConflict.explainsClass(class, v)
		},
	},
	{
		// MVP-7.x/8 with two or more cores (whole-machine face of KF-R3): a flush
		// cancels a cache request after it has sent snoop commands to the other
		// core holding the line; cc.flush releases the line lock at once while
		// the commands stay in the directory: "cache line doesn't exist",
		// "memory address should exist", "invalid state", a stale Shared copy.
		id: "KF-W10", props: wmProps,
		match: func(c *core.Case, f *features, class string, v *core.Verdict) bool {
			if c.Cfg.V < mach.MVP70 || c.Cfg.Cores < 2 || f.redirects == 0 || f.loads+f.stores == 0 {
				return false
			}
			if isMismatch(class) && !(f.conflictSameLine && f.tConflict.explainsClass(class, v)) {
				return false
			}
			// the defect itself must have happened in this run (observed on the
			// machine through the read-only snapshot hook): a line lock given up
			// while a snoop command for that line was still outstanding
			return orphanSnoopEvent(c)
		},
	},
	{
		// MVP-8 with two or more cores (whole-machine face of KF-C13-2): two
		// insertions into the shared L3 while a victim still awaits its
		// write-back report the same victim twice; the second l3WriteBack
		// command finds no line.
		id: "KF-W12", props: wmProps,
		match: func(c *core.Case, f *features, class string, v *core.Verdict) bool {
			return c.Cfg.V == mach.MVP80 && c.Cfg.Cores >= 2 && f.l3Lines > 32 &&
				strings.HasPrefix(baseClass(class), "panic:proc/mvp8-0.(*cacheController).coSnoop")
		},
	},
	{
		// MVP-6.3/7.x/8: the rename ring holds ten uncommitted writes per
		// register; with more, older entries are overwritten and only the arrival
		// order (which back-pressure on the write bus scrambles) is left.
		id: "KF-W11", props: wmProps,
		match: func(c *core.Case, f *features, class string, v *core.Verdict) bool {
			return c.Cfg.V >= mach.MVP63 && f.tRing.explainsClass(class, v)
		},
	},
	{
		// MVP-7.1/8: the control unit computes a memory instruction's address at
		// dispatch (to pin it to the core owning the line) from registers whose
		// older writers have not executed yet: the cycle count depends on a dead
		// register value.
		id: "KF-T1", props: []string{"C12"},
		match: func(c *core.Case, f *features, class string, v *core.Verdict) bool {
			return (c.Cfg.V == mach.MVP71 || c.Cfg.V == mach.MVP80) && baseClass(class) == "value-dependent-cycles" && deadBaseValueDiffers(c)
		},
	},
	{
		// MVP-6.1+: instructions behind a taken branch or a jump start executing
		// before the redirect; a wrong-path load/store whose base register holds
		// a data value, or a wrong-path branch on a data value, touches other
		// lines / fetches other instructions: the cycle count depends on a value
		// the executed path never uses as an address or a condition.
		id: "KF-T2", props: []string{"C12"},
		match: func(c *core.Case, f *features, class string, v *core.Verdict) bool {
			return c.Cfg.V >= mach.MVP61 && baseClass(class) == "value-dependent-cycles" && wrongPathReadsDifferingValue(c)
		},
	},
}

// matchTrigger returns the id of the first OPEN known finding of property prop
// that explains the violation, or "". Several findings may each explain a part
// of the mismatches: the union of the open, applicable taints is also tried.
func matchTrigger(prop string, kf *findings.Set, c *core.Case, class string, v *core.Verdict) string {
	var f *features
	for i := range triggers {
		t := &triggers[i]
		listed := false
		for _, p := range t.props {
			if p == prop {
				listed = true
			}
		}
		if !listed || !kf.IsOpen(prop, t.id) {
			continue
		}
		if f == nil {
			f = featuresOf(c)
			if f == nil {
				return ""
			}
		}
		if t.match(c, f, class, v) {
			if os.Getenv("VERIF_DEBUG_KF") != "" {
				if fh, err := os.OpenFile(os.Getenv("VERIF_DEBUG_KF"), os.O_APPEND|os.O_CREATE|os.O_WRONLY, 0o644); err == nil {
					fmt.Fprintf(fh, "KF %s explains class %s cfg %s verdict %+v slow=%+v shadow=%+v\nPROG %s\n", t.id, class, c.Cfg, v, f.tSlowWaw, f.tShadow, strings.ReplaceAll(c.Prog.Text(), "\n", "; "))
					fh.Close()
				}
			}
			return t.id
		}
	}
	// Several defects in one run: each open finding whose conditions hold may
	// explain a part of the mismatches. The union is tried with a verdict
	// restricted to one register / one line at a time: every single mismatch
	// must be explained by some finding.
	if f != nil && v != nil && isMismatch(class) && !v.BadMany {
		var used []string
		explainedBy := func(one *core.Verdict) bool {
			for i := range triggers {
				t := &triggers[i]
				listed := false
				for _, p := range t.props {
					if p == prop {
						listed = true
					}
				}
				if !listed || !kf.IsOpen(prop, t.id) {
					continue
				}
				if t.match(c, f, class, one) {
					used = append(used, t.id)
					return true
				}
			}
			return false
		}
		for _, r := range v.BadRegs {
			if !explainedBy(&core.Verdict{Class: v.Class, BadRegs: []isa.Reg{r}}) {
				return ""
			}
		}
		for _, l := range v.BadLines {
			if !explainedBy(&core.Verdict{Class: v.Class, BadLines: []int32{l}}) {
				return ""
			}
		}
		if len(used) > 0 {
			return used[0]
		}
	}
	if os.Getenv("VERIF_DEBUG_NOMATCH") != "" && f != nil {
		fmt.Fprintf(os.Stderr, "NOMATCH prop %s class %s cfg %s verdict %+v conflict=%+v\n", prop, class, c.Cfg, v, f.tConflict)
	}
	return ""
}

// deadBaseValueDiffers: in the value-independence pair of c some load or store
// has a base register that held different values in the two runs within the
// last 32 executed instructions before it (the final address is the same in
// both runs; an address computed early from the not yet updated register is not).
func deadBaseValueDiffers(c *core.Case) bool {
	found := false
	pairRegs(c, func(i int, st isa.Step, diffUntil *[isa.NumRegs]int) {
		in := c.Prog.Insts[st.Idx]
		if (in.Op.IsLoad() || in.Op.IsStore()) && i-diffUntil[in.Rs1] <= 32 {
			found = true
		}
	})
	return found
}

// pairRegs walks the two reference traces of the value-independence pair of c
// and calls visit before each executed instruction with the number of the
// step and, per register, the last step at which the two runs disagreed on it
// (-1<<30: never).
func pairRegs(c *core.Case, visit func(i int, st isa.Step, diffUntil *[isa.NumRegs]int)) bool {
	ref := isa.Exec(c.Prog, c.Init, 20000, true)
	if !ref.End.WellFormed() {
		return false
	}
	s2, ref2, ok := secondState(c, ref)
	if !ok {
		return false
	}
	ra, rb := c.Init.Regs, s2.Regs
	var diffUntil [isa.NumRegs]int
	for r := range diffUntil {
		diffUntil[r] = -1 << 30
	}
	for i := range ref.Trace {
		a, b := ref.Trace[i], ref2.Trace[i]
		in := c.Prog.Insts[a.Idx]
		for r := range diffUntil {
			if ra[r] != rb[r] {
				diffUntil[r] = i
			}
		}
		visit(i, a, &diffUntil)
		if a.WroteRd && in.Rd != isa.Zero {
			ra[in.Rd] = a.Value
		}
		if b.WroteRd && in.Rd != isa.Zero {
			rb[in.Rd] = b.Value
		}
	}
	return true
}

// wrongPathReadsDifferingValue: the static shadow (8 instructions) of a taken
// conditional branch or an executed jump holds a load/store, a branch or a
// jalr that reads a register on which the two runs of the pair disagree
// (within the last 32 executed instructions).
func wrongPathReadsDifferingValue(c *core.Case) bool {
	found := false
	pairRegs(c, func(i int, st isa.Step, diffUntil *[isa.NumRegs]int) {
		in := c.Prog.Insts[st.Idx]
		if !(in.Op.IsCondBranch() && st.Taken || in.Op.IsJump()) {
			return
		}
		for k := 1; k <= 8; k++ {
			j := int(st.Idx) + k
			if j >= len(c.Prog.Insts) {
				break
			}
			sh := c.Prog.Insts[j]
			if !(sh.Op.IsLoad() || sh.Op.IsStore() || sh.Op.IsCondBranch() || sh.Op == isa.JALR) {
				continue
			}
			for _, r := range sh.Reads() {
				if sh.Op.IsStore() && r == sh.Rs2 && r != sh.Rs1 {
					continue // the stored data is not an address
				}
				if r != isa.Zero && i-diffUntil[r] <= 32 {
					found = true
				}
			}
		}
	})
	return found
}

type verifSnapshotter interface {
	VerifSnapshot() comp.VerifSnap
}

// orphanSnoopEvent re-runs the case on its machine and reports whether, at
// some tick, a snoop command that was outstanding at the previous tick is
// still outstanding while the lock count of its line has gone down: in normal
// operation the requester keeps the line lock until its commands are done and
// every other locker of that line waits for the same commands, so only a
// cancelled request (KF-R3) gives a lock up early.
func orphanSnoopEvent(c *core.Case) bool {
	ref := isa.Exec(c.Prog, c.Init, 20000, true)
	if !ref.End.WellFormed() {
		return false
	}
	app, err := core.Parse(c.Prog)
	if err != nil {
		return false
	}
	type key struct {
		core int
		addr int32
		req  int32
	}
	type locks struct{ r, w int }
	prev := map[key]locks{}
	found := false
	done := core.InstallSched(c.Sched)
	mach.Run(c.Cfg, app, c.Init, core.BudgetTicks(len(ref.Trace))/budgetDivisor, &mach.Hooks{Tick: func(vm mach.VM, cycle int) {
		if found {
			return
		}
		sn, ok := vm.(verifSnapshotter)
		if !ok {
			return
		}
		s := sn.VerifSnapshot()
		sem := map[int32]locks{}
		for _, x := range s.Sems {
			sem[x.Addr] = locks{x.Read, x.Write}
		}
		cur := map[key]locks{}
		if os.Getenv("VERIF_DEBUG_ORPHAN") != "" && (len(s.Commands) > 0) {
			fmt.Fprintf(os.Stderr, "tick %d cmds %+v sems %+v busy", cycle, s.Commands, s.Sems)
			for i, c := range s.Cores {
				fmt.Fprintf(os.Stderr, " c%d:r%v/w%v/s%v", i, c.ReadBusy, c.WriteBusy, c.SnoopBusy)
			}
			fmt.Fprintln(os.Stderr)
		}
		for _, cmd := range s.Commands {
			if cmd.Done {
				continue
			}
			k := key{cmd.Core, cmd.Addr, cmd.Request}
			l := sem[cmd.Addr]
			if p, ok := prev[k]; ok && (l.r < p.r || l.w < p.w) {
				found = true
			}
			cur[k] = l
		}
		prev = cur
	}})
	done()
	return found
}
