//go:build verifoverlay

package wm

import (
	"strings"

	"verifsim/internal/core"
	"verifsim/internal/findings"
	"verifsim/internal/mach"
)

// trigger is the executable part of an open known finding of the whole-machine
// checks (DESIGN §7.2): a predicate over (program, reference trace, variant,
// configuration, violation class) and nothing the code under test can influence.
type trigger struct {
	id    string
	props []string // properties the finding is listed under
	match func(c *core.Case, f *features, class string) bool
}

func isMismatch(class string) bool {
	return class == core.RegMismatch || class == core.MemMismatch ||
		class == "shadow:"+core.RegMismatch || class == "shadow:"+core.MemMismatch ||
		class == "exit:"+core.RegMismatch || class == "exit:"+core.MemMismatch
}

var wmProps = []string{"C01", "C03", "C04", "C05", "C06", "C07", "C09", "C10", "C12"}

// The trigger regions are deliberately expressed in program terms (what the
// reference executes), never in terms of what the machine did.
var triggers = []trigger{
	{
		// MVP-6.0's flush (cpu.go, "TODO Same checks as in MVP 6.1") resets every
		// execute unit and cleans the buses without looking at instruction age:
		// OLDER work still in flight on another unit is dropped, younger work
		// survives: wrong results, hangs and out-of-range stores.
		id: "KF-W1", props: wmProps,
		match: func(c *core.Case, f *features, class string) bool {
			return c.Cfg.V == mach.MVP60 && c.Cfg.EU >= 2 && f.redirects >= 1
		},
	},
	{
		// MVP-4..6.3: a store that misses the cache waits on the write bus / in a
		// write unit (MVP-4/5: behind earlier stores; MVP-6.x: for the whole memory latency); a load of that line issued meanwhile (before or
		// after) reads / caches stale memory, and the stale line is written back
		// over the store at the end of the run. Memory dependences are not tracked.
		id: "KF-W2", props: wmProps,
		match: func(c *core.Case, f *features, class string) bool {
			v := c.Cfg.V
			return v >= mach.MVP4 && v <= mach.MVP63 && f.conflictSameLine && isMismatch(class)
		},
	},
	{
		// MVP-6.1+: instructions in the shadow of a taken conditional branch whose
		// operand is slow start executing; register writes are rolled back from
		// MVP-6.2 on (6.2 with one slot per register, so an older uncommitted write
		// to the same register is lost), stores are never rolled back, and a
		// younger branch/jump inside the shadow that resolves first commits the
		// older shadow writes (one shared expectation in the branch unit).
		id: "KF-W3", props: wmProps,
		match: func(c *core.Case, f *features, class string) bool {
			v := c.Cfg.V
			if v < mach.MVP61 || f.takenBranches == 0 || !isMismatch(class) {
				return false
			}
			// nested: a younger branch or jump in the shadow resolves first and its
			// commit/rollback makes the older shadow writes architectural
			nested := f.shadowHasWork && f.shadowHasTrap
			switch v {
			case mach.MVP61:
				return f.shadowHasWork
			case mach.MVP62:
				return f.shadowHasWork
			}
			return nested || f.shadowHasStore
		},
	},
	{
		// MVP-6.1+ with two or more units: a conditional branch waiting for a slow
		// operand (forwarded from a load) lets younger instructions run ahead; one
		// that raises an error (div/rem by zero, undefined label) fails the run at
		// once, one that redirects fetch (j/jal/jalr, a second conditional branch)
		// derails it.
		id: "KF-W7", props: wmProps,
		match: func(c *core.Case, f *features, class string) bool {
			return c.Cfg.V >= mach.MVP61 && c.Cfg.Parallelism() >= 2 && f.takenBranches >= 1 && f.shadowHasErrTrap
		},
	},
	{
		// MVP-6.3/7.x/8: two writers of one register are both renamed; when a
		// commit/rollback (conditional branch) or the end of the run falls between
		// their completions (the older one is a load, waits for a load, or is held
		// up by write-bus back-pressure), the older value lands last.
		id: "KF-W4", props: wmProps,
		match: func(c *core.Case, f *features, class string) bool {
			return c.Cfg.V >= mach.MVP63 && (f.loadDestOverwritten || f.wawBeforeBranch) && isMismatch(class)
		},
	},
	{
		// MVP-6.3/7.x/8: a conditional branch commits the renamed registers while
		// an OLDER instruction still waits for a load; a younger writer of one of
		// its source registers (write-after-read) becomes visible to it.
		id: "KF-W8", props: wmProps,
		match: func(c *core.Case, f *features, class string) bool {
			return c.Cfg.V >= mach.MVP63 && f.warAfterLoadUse && f.condBranches >= 1 &&
				(isMismatch(class) || strings.HasPrefix(class, "panic:risc.(*Context).WriteMemory"))
		},
	},
	{
		// MVP-7.x/8 with two or more cores: the per-line lock serialises the
		// cores but not in program order; a store and another access to the
		// same line issued to different cores can be performed out of order.
		id: "KF-W9", props: wmProps,
		match: func(c *core.Case, f *features, class string) bool {
			return c.Cfg.V >= mach.MVP70 && c.Cfg.Cores >= 2 && f.conflictSameLine && isMismatch(class)
		},
	},
	{
		// MVP-6.3/7.x/8: the rename ring holds ten uncommitted writes per
		// register; with more, older entries are overwritten and only the arrival
		// order (which back-pressure on the write bus scrambles) is left.
		id: "KF-W11", props: wmProps,
		match: func(c *core.Case, f *features, class string) bool {
			return c.Cfg.V >= mach.MVP63 && f.ringOverflow && isMismatch(class)
		},
	},
	{
		// MVP-7.x/8 with two or more cores (whole-machine face of KF-R3): a flush
		// cancels a cache request after it has sent snoop commands to the other
		// core holding the line; cc.flush releases the line lock at once while
		// the commands stay in the directory: "cache line doesn't exist",
		// "memory address should exist", "invalid state", a stale Shared copy.
		id: "KF-W10", props: wmProps,
		match: func(c *core.Case, f *features, class string) bool {
			return c.Cfg.V >= mach.MVP70 && c.Cfg.Cores >= 2 && f.conflictSameLine && f.redirects >= 1
		},
	},
	{
		// MVP-7.1/8: the control unit computes a memory instruction's address at
		// dispatch (to pin it to the core owning the line) from registers whose
		// older writers have not executed yet: the cycle count depends on a dead
		// register value.
		id: "KF-T1", props: []string{"C12"},
		match: func(c *core.Case, f *features, class string) bool {
			return (c.Cfg.V == mach.MVP71 || c.Cfg.V == mach.MVP80) && class == "value-dependent-cycles" && f.memBaseWrittenRecently
		},
	},
}

// matchTrigger returns the id of the first OPEN known finding of property prop
// whose trigger holds for c, or "".
func matchTrigger(prop string, kf *findings.Set, c *core.Case, class string) string {
	var f *features
	for i := range triggers {
		t := &triggers[i]
		listed := false
		for _, p := range t.props {
			if p == prop {
				listed = true
			}
		}
		if !listed || !kf.IsOpen(prop, t.id) {
			continue
		}
		if f == nil {
			f = featuresOf(c)
			if f == nil {
				return ""
			}
		}
		if t.match(c, f, class) {
			return t.id
		}
	}
	return ""
}
