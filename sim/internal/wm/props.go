//go:build verifoverlay

package wm

import (
	"verifsim/internal/api"
	"verifsim/internal/core"
	"verifsim/internal/gen"
	"verifsim/internal/mach"
	"verifsim/internal/rng"
)

var allVariants = []mach.Variant{mach.MVP1, mach.MVP2, mach.MVP3, mach.MVP4, mach.MVP5, mach.MVP60, mach.MVP61, mach.MVP62, mach.MVP63, mach.MVP70, mach.MVP71, mach.MVP80}
var pipelined = allVariants[3:]
var cached = allVariants[2:]

var realAll = []string{"risc.Parse", "all twelve variants' NewCPU/Run (fetch, decode, control, execute, write units, branch units, BTB, MMU, caches, MSI, L3)", "comp buses / RAT / LRU caches", "risc.Context"}

func wholeMachineDesc(rule string, faults []string) api.Description {
	return api.Description{
		Level: "exploration",
		Rule:  rule,
		Real:  realAll,
		Stub:  []string{"none: the harness supplies only the program text, the initial registers/memory, the map-iteration order (verifrt overlay) and the tick budget"},
		Assumptions: []string{
			"reference semantics of DESIGN.md §3 (RV32IM subset; div/rem by zero and taken jumps to undefined labels are defined errors; ret or running/jumping past the last instruction ends the program)",
			"map iteration order is the only scheduler inside one machine; it is controlled through the generated overlay (canonical order + seeded permutation)",
			"violations inside the trigger region of an open known finding are counted, not reported (DESIGN.md §7.2)",
		},
		FaultKinds: faults,
	}
}

// C01 returns the check of property C01.
func C01() api.Check {
	return &check{
		id: "C01", quick: 2500, thorough: 250000,
		variants: allVariants,
		gen: func(seed uint64, idx int, tier string) item {
			if idx%3 == 2 {
				return item{c: gen.ISASweep(seed), sub: "isa-sweep"}
			}
			return item{c: gen.General(seed), sub: "general"}
		},
		judge: judgeRef,
		desc: wholeMachineDesc("one evaluation = one (program, initial state, variant, parallelism, map-order schedule) run compared with the sequential reference on all 32 registers, every memory byte and error status; distinct_nontrivial = distinct (executed op/branch-outcome sequence, variant, parallelism) with at least 3 executed instructions",
			[]string{"pipeline flush (mispredicted branch / first-seen jump)", "forwarding", "renaming", "commit/rollback", "cache eviction via working set", "map-order permutation"}),
	}
}

// C07 returns the check of property C07 (bounded liveness, no panic, errors as values).
func C07() api.Check {
	return &check{
		id: "C07", quick: 2500, thorough: 250000,
		variants: allVariants,
		gen: func(seed uint64, idx int, tier string) item {
			c := gen.HangProne(seed)
			sub := "hang-prone"
			if c.Ref.End.DefinedError() {
				sub = "error"
			}
			return item{c: c, sub: sub}
		},
		judge: judgeLive,
		desc: wholeMachineDesc("one evaluation = one run that must return, without a Go panic, within 16 x 309 x (executed instructions + 64) ticks, with err != nil iff the reference ends in a defined error; values are not compared; distinct_nontrivial as for C01",
			[]string{"double flush", "blocked bus", "pending fetch", "executed div/rem by zero", "taken branch to an undefined label", "map-order permutation"}),
	}
}

// judgeLive is C07's oracle.
func judgeLive(w *check, c *core.Case) (string, string, runStats) {
	ref, ok := refOf(c, true)
	if !ok {
		return "", "", runStats{}
	}
	out, ss, err := execute(c, ref)
	if err != nil {
		return core.ParseError, err.Error(), runStats{}
	}
	st := statsOf(out, ss, ref)
	st.feat = traceSig(c.Prog, ref)
	switch {
	case out.Panic != "":
		return core.PanicPrefix + out.PanicLoc, out.Panic, st
	case out.Budget:
		return core.Budget, "no return within the tick budget", st
	case ref.End.DefinedError() && out.Err == "":
		return core.MissingError, "reference ends in " + ref.End.String() + ", Run returned a nil error", st
	case !ref.End.DefinedError() && out.Err != "":
		return core.UnexpectedError, out.Err, st
	}
	return core.OK, "", st
}

var _ = rng.New
