//go:build verifoverlay

package wm

import (
	"verifsim/internal/api"
	"verifsim/internal/core"
	"verifsim/internal/gen"
	"verifsim/internal/mach"
	"verifsim/internal/rng"
)

var allVariants = []mach.Variant{mach.MVP1, mach.MVP2, mach.MVP3, mach.MVP4, mach.MVP5, mach.MVP60, mach.MVP61, mach.MVP62, mach.MVP63, mach.MVP70, mach.MVP71, mach.MVP80}
var pipelined = allVariants[3:]
var cached = allVariants[2:]

var realAll = []string{"risc.Parse", "all twelve variants' NewCPU/Run (fetch, decode, control, execute, write units, branch units, BTB, MMU, caches, MSI, L3)", "comp buses / RAT / LRU caches", "risc.Context"}

func wholeMachineDesc(rule string, faults []string) api.Description {
	return api.Description{
		Level: "exploration",
		Rule:  rule,
		Real:  realAll,
		Stub:  []string{"none: the harness supplies only the program text, the initial registers/memory, the map-iteration order (verifrt overlay) and the tick budget"},
		Assumptions: []string{
			"reference semantics of DESIGN.md §3 (RV32IM subset; div/rem by zero and taken jumps to undefined labels are defined errors; ret or running/jumping past the last instruction ends the program)",
			"map iteration order is the only scheduler inside one machine; it is controlled through the generated overlay (canonical order + seeded permutation)",
			"violations inside the trigger region of an open known finding are counted, not reported (DESIGN.md §7.2)",
		},
		FaultKinds: faults,
	}
}

// C01 returns the check of property C01.
func C01() api.Check {
	return &check{
		id: "C01", quick: 20000, thorough: 400000,
		variants: allVariants,
		gen: func(seed uint64, idx int, tier string) item {
			if idx%3 == 2 {
				return item{c: gen.ISASweep(seed), sub: "isa-sweep"}
			}
			return item{c: gen.General(seed), sub: "general"}
		},
		judge: judgeRef,
		desc: wholeMachineDesc("one evaluation = one (program, initial state, variant, parallelism, map-order schedule) run compared with the sequential reference on all 32 registers, every memory byte and error status; distinct_nontrivial = distinct (executed op/branch-outcome sequence, variant, parallelism) with at least 3 executed instructions",
			[]string{"pipeline flush (mispredicted branch / first-seen jump)", "forwarding", "renaming", "commit/rollback", "cache eviction via working set", "map-order permutation"}),
	}
}

// C07 returns the check of property C07 (bounded liveness, no panic, errors as values).
func C07() api.Check {
	return &check{
		id: "C07", quick: 16000, thorough: 400000,
		variants: allVariants,
		gen: func(seed uint64, idx int, tier string) item {
			if idx%6 == 5 {
				return item{c: gen.LockShadow(seed), sub: "lock-shadow"}
			}
			c := gen.HangProne(seed)
			sub := "hang-prone"
			if c.Ref.End.DefinedError() {
				sub = "error"
			}
			return item{c: c, sub: sub}
		},
		judge: judgeLive,
		desc: wholeMachineDesc("one evaluation = one run that must return, without a Go panic, within 16 x 309 x (executed instructions + 64) ticks, with err != nil iff the reference ends in a defined error; values are not compared; distinct_nontrivial as for C01",
			[]string{"double flush", "blocked bus", "pending fetch", "executed div/rem by zero", "taken branch to an undefined label", "map-order permutation"}),
	}
}

// judgeLive is C07's oracle.
func judgeLive(w *check, c *core.Case) (string, string, runStats) {
	ref, ok := refOf(c, true)
	if !ok {
		return "", "", runStats{}
	}
	out, ss, err := execute(c, ref)
	if err != nil {
		return core.ParseError, err.Error(), runStats{}
	}
	st := statsOf(out, ss, ref)
	st.feat = traceSig(c.Prog, ref)
	switch {
	case out.Panic != "":
		return core.PanicPrefix + out.PanicLoc, out.Panic, st
	case out.Budget:
		return core.Budget, "no return within the tick budget", st
	case ref.End.DefinedError() && out.Err == "":
		return core.MissingError, "reference ends in " + ref.End.String() + ", Run returned a nil error", st
	case !ref.End.DefinedError() && out.Err != "":
		return core.UnexpectedError, out.Err, st
	}
	return core.OK, "", st
}

var _ = rng.New

// C04 returns the check of property C04 (register dependences).
func C04() api.Check {
	return &check{
		id: "C04", quick: 20000, thorough: 500000,
		variants: pipelined,
		gen: func(seed uint64, idx int, tier string) item {
			c := gen.RegPressure(seed)
			return item{c: c, sub: "reg-pressure"}
		},
		judge: judgeRef,
		desc: wholeMachineDesc("one evaluation = one register-pressure program (2-5 data registers; RAW chains, fans, WAW/WAR pairs, mixed-latency producers; loads from a read-only area, no stores) on one pipelined variant and unit count under one map-order schedule, compared with the reference; distinct_nontrivial = distinct (executed op/branch-outcome sequence, variant, parallelism), >= 3 executed instructions",
			[]string{"forwarding", "renaming", "scoreboard release", "map-order permutation (forwarding candidate choice)", "flush (branch sub-profile)"}),
	}
}

// C05 returns the check of property C05 (cache transparency).
func C05() api.Check {
	return &check{
		id: "C05", quick: 1500, thorough: 100000,
		variants: cached,
		gen: func(seed uint64, idx int, tier string) item {
			if idx%4 == 3 {
				return item{c: gen.StoreThenWalk(seed), sub: "store-then-walk"}
			}
			if idx%8 == 1 {
				return item{c: gen.RMW(seed), sub: "rmw"}
			}
			if idx%8 == 5 {
				// systematic: k enumerates (stride, walk length, gap); the walk
				// length runs through every value of 4..99 for either stride
				// before it repeats (quick: once; thorough: 65 times with
				// different surroundings)
				k := idx / 8
				return item{c: gen.EvictWindow(seed, 4+(k/2)%96, []int{128, 64}[k%2], []int{0, 0, 1, 3, 12}[(k/192)%5]), sub: "evict-window"}
			}
			return item{c: gen.Memory(seed), sub: "memory"}
		},
		judge: judgeRef,
		desc: wholeMachineDesc("one evaluation = one load/store program (all widths, 1-3 address registers, working sets up to 16 KB walked by counted loops so that lines are dirtied, evicted and refetched) on one of MVP-3..8, compared with the reference on registers and on all memory after Run; distinct_nontrivial as for C01",
			[]string{"capacity eviction of clean and dirty lines", "refetch", "snoop evict / write-back (multi-core)", "end-of-run flush / export / L3 write-back", "map-order permutation"}),
	}
}

// C10 returns the check of property C10 (memory dependences in flight).
func C10() api.Check {
	return &check{
		id: "C10", quick: 8000, thorough: 400000,
		variants: pipelined,
		gen: func(seed uint64, idx int, tier string) item {
			if idx%5 == 4 {
				return item{c: gen.RMW(seed), sub: "rmw"}
			}
			if idx%10 == 3 {
				return item{c: gen.LockShadow(seed), sub: "lock-shadow"}
			}
			return item{c: gen.MemPairs(seed), sub: "mem-pairs"}
		},
		judge: judgeRef,
		desc: wholeMachineDesc("one evaluation = one program of conflicting access pairs/triples (store->load, load->store, store->store on the same byte, word and line through independent address registers, distances 1..8, prepared hit/miss state) on one pipelined variant with 1-4 units/cores, compared with the reference; distinct_nontrivial as for C01",
			[]string{"same-cycle / adjacent-cycle dispatch to different units or cores", "store buffered in a write unit", "line lock contention", "map-order permutation"}),
	}
}

func siteOf(idx int, kinds int) gen.Site {
	// systematic enumeration of the fault point: delay x length x kind x exit
	return gen.Site{Delay: idx % 3, Length: 1 + (idx/3)%6, Kind: (idx / 18) % kinds, Exit: (idx / (18 * kinds)) % 4}
}

// C03 returns the check of property C03 (wrong-path instructions leave no trace).
func C03() api.Check {
	d := wholeMachineDesc("fault point enumerated per run index: resolution delay of the branch operand {ALU, warmed load, cold load} x shadow length 1..6 x first shadow kind (11 kinds: register write, store, load, wild load, jal, jalr, div/rem by zero, undefined label, long-then-short writer, second branch, sub-word store); shadow content, surrounding code, data and configuration are seeded. One evaluation = P and its shadow-blanked twin on one pipelined variant; violated iff the machine disagrees with the reference on P and agrees on the twin. distinct_nontrivial = distinct (executed sequence, variant, parallelism) among runs in which at least one flush fired",
		[]string{"pipeline flush at an enumerated point", "wrong-path register write / store / load / wild load / jal / jalr / div by zero / undefined label", "map-order permutation"})
	d.Level = "fault_enumeration"
	return &check{
		id: "C03", quick: 20000, thorough: 400000,
		variants: pipelined, perCase: 5,
		gen: func(seed uint64, idx int, tier string) item {
			c, shadows := gen.ShadowSites(seed, siteOf(idx, gen.ShadowKinds))
			var marks []int
			for _, s := range shadows {
				marks = append(marks, s[0], s[1])
			}
			return item{c: c, marks: marks, sub: "shadow"}
		},
		judge: judgeShadow,
		desc:  d,
	}
}

// C09 returns the check of property C09 (returning completes everything older).
func C09() api.Check {
	d := wholeMachineDesc("exit point enumerated per run index: tail kind (8: missing load, hit load, store hit, store miss, dependent chain, WAW pair, store then independent load, writes on different units) x tail length 1..6 x exit (ret, fall-through, jump to end, ret reached by a taken branch); body and data seeded. One evaluation = P and its drained twin (nops and a dependent use of every tail result inserted before the exit) on one pipelined variant; violated iff the machine disagrees with the reference on P and agrees with the twin's own reference on the twin",
		[]string{"program end with a load / store / dependent chain in flight", "map-order permutation"})
	d.Level = "fault_enumeration"
	return &check{
		id: "C09", quick: 20000, thorough: 400000,
		variants: pipelined, perCase: 5,
		gen: func(seed uint64, idx int, tier string) item {
			s := siteOf(idx, gen.TailKinds)
			c, produced := gen.Tails(seed, s)
			aux := []int{}
			for _, r := range produced {
				aux = append(aux, int(r))
			}
			return item{c: c, aux: aux, sub: "tail"}
		},
		judge: judgeTail,
		desc:  d,
	}
}
