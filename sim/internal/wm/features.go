//go:build verifoverlay

package wm

import (
	"sort"
	"strings"

	"verifsim/internal/core"
	"verifsim/internal/isa"
)

// taint is what a known defect can explain: the registers, memory lines (64
// bytes) or everything that may be wrong at the end of the run, obtained by
// propagating the defect's origins forward through the REFERENCE trace
// (data flow only; a tainted branch operand taints everything).
type taint struct {
	active bool
	all    bool
	memAny bool
	// ctrl: a tainted value reaches a branch, an indirect jump or the base of a
	// load/store: the machine may take another path / touch other lines
	ctrl bool
	// canLoop: the program has a backward branch / jump or an indirect jump
	canLoop bool
	regs    [isa.NumRegs]bool
	lines   map[int32]bool
}

// explainsClass: for a timing difference between two architecturally right
// runs (C12 value independence) a result-corrupting defect is an explanation
// only if what it corrupts reaches control flow or addressing; otherwise every
// mismatch of v must lie inside the taint.
func (t *taint) explainsClass(class string, v *core.Verdict) bool {
	b := baseClass(class)
	if strings.HasPrefix(b, "invariant:") {
		// the coherence invariants hold whatever the program computes
		return false
	}
	if b == core.Budget && t != nil && !t.canLoop {
		// wrong values cannot make a loop-free program run forever
		return false
	}
	if b == "value-dependent-cycles" || (b != core.RegMismatch && b != core.MemMismatch) {
		// a timing difference, a hang, a panic, a spurious or missing error:
		// the corrupted value must reach control flow or an address
		return t != nil && t.active && (t.all || t.ctrl)
	}
	return t.explains(v)
}

// explains tells whether every mismatch of v lies inside the taint.
func (t *taint) explains(v *core.Verdict) bool {
	if t == nil || !t.active {
		return false
	}
	if t.all {
		return true
	}
	if v == nil {
		return false
	}
	if v.Any {
		return true
	}
	for _, r := range v.BadRegs {
		if !t.regs[r] {
			return false
		}
	}
	if v.BadMany && !t.memAny {
		return false
	}
	if !t.memAny {
		for _, l := range v.BadLines {
			if !t.lines[l] {
				return false
			}
		}
	}
	return true
}

// origin: after instruction pos of the trace, register reg / memory line line /
// any memory / everything may be wrong.
type origin struct {
	pos     int
	reg     isa.Reg
	hasReg  bool
	line    int32
	hasLine bool
	memAny  bool
	all     bool
}

func propagate(p *isa.Program, ref *isa.Result, origins []origin) *taint {
	t := &taint{lines: map[int32]bool{}}
	if len(origins) == 0 {
		return t
	}
	t.active = true
	at := map[int][]origin{}
	for _, o := range origins {
		at[o.pos] = append(at[o.pos], o)
	}
	for i, st := range ref.Trace {
		in := p.Insts[st.Idx]
		dirty := false
		for _, r := range in.Reads() {
			if r != isa.Zero && t.regs[r] {
				dirty = true
			}
		}
		if (in.Op.IsLoad() || in.Op.IsStore()) && in.Rs1 != isa.Zero && t.regs[in.Rs1] {
			t.ctrl = true
		}
		switch {
		case in.Op.IsLoad():
			if t.memAny || t.lines[st.Addr>>6] {
				dirty = true
			}
		case in.Op.IsStore():
			if in.Rs1 != isa.Zero && t.regs[in.Rs1] {
				t.memAny = true
			} else if dirty {
				t.lines[st.Addr>>6] = true
			}
		case in.Op.IsCondBranch(), in.Op == isa.JALR:
			if dirty {
				t.all = true
				t.ctrl = true
			}
		}
		if rd, w := in.Writes(); w && rd != isa.Zero && dirty {
			t.regs[rd] = true
		}
		for _, o := range at[i] {
			switch {
			case o.all:
				t.all = true
				t.ctrl = true
			case o.memAny:
				t.memAny = true
			case o.hasLine:
				t.lines[o.line] = true
			}
			if o.hasReg && o.reg != isa.Zero {
				t.regs[o.reg] = true
			}
		}
		if t.all {
			return t
		}
	}
	return t
}

// features are facts about a case computed from the program text and its
// REFERENCE execution only (never from the machine under test).
type features struct {
	ref *isa.Result
	// executed loads / stores / conditional branches / taken branches / jumps
	loads, stores, condBranches, takenBranches, jumps int
	// redirects = taken conditional branches + executed jumps (what can flush)
	redirects int
	// conflictSameLine: a store and another access (either order) touch the same 64-byte line
	conflictSameLine bool
	// shadow*: the 8 instructions that statically follow a taken conditional
	// branch or an executed jump contain: a register write or store / a store /
	// a load or store / div, rem, a jump, a conditional branch or an undefined
	// label / div, rem or an undefined label
	shadowHasWork, shadowHasStore, shadowHasMem, shadowHasTrap, shadowHasErrTrap bool
	// memBaseWrittenRecently: a load/store whose base register was written
	// within the 10 executed instructions before it
	memBaseWrittenRecently bool
	// slowWaw / warLoad / ringOverflow: see the taints below
	slowWaw, warLoad, ringOverflow bool
	executed                       int
	// l3Lines: distinct 128-byte blocks accessed by the reference execution
	l3Lines int

	// what each known defect family can explain
	tConflict *taint // a store and another access to one line (KF-W2, W9, W10)
	tShadow   *taint // effects of the static shadow of taken branches (KF-W3)
	tSlowWaw  *taint // an older slow (or back-pressured) writer lands after a younger one (KF-W4)
	tWar      *taint // a waiting instruction sees a younger writer of its source (KF-W8)
	tRing     *taint // more than 10 uncommitted writes to one register (KF-W11)
}

func readsReg(in isa.Inst, r isa.Reg) bool {
	for _, x := range in.Reads() {
		if x == r {
			return true
		}
	}
	return false
}

func featuresOf(c *core.Case) *features {
	ref := isa.Exec(c.Prog, c.Init, 20000, true)
	if !ref.End.WellFormed() {
		return nil
	}
	p := c.Prog
	f := &features{ref: ref, executed: len(ref.Trace)}
	tr := ref.Trace
	n := len(tr)
	inst := func(i int) isa.Inst { return p.Insts[tr[i].Idx] }

	var oConflict, oShadow, oSlow, oWar, oRing []origin

	type acc struct {
		pos   int
		line  int32
		store bool
		rd    isa.Reg
	}
	var accs []acc
	l3seen := map[int32]bool{}
	lastWrite := map[isa.Reg]int{}
	// dep[r]: trace positions of the (at most 64 most recent) loads the value
	// of register r was computed from, through registers only
	var dep [isa.NumRegs][]int
	dependsOn := func(in isa.Inst, pos int) bool {
		for _, r := range in.Reads() {
			for _, d := range dep[r] {
				if d == pos {
					return true
				}
			}
		}
		return false
	}
	for i := 0; i < n; i++ {
		in := inst(i)
		st := tr[i]
		isRedirect := false
		switch {
		case in.Op.IsLoad():
			f.loads++
		case in.Op.IsStore():
			f.stores++
		case in.Op.IsCondBranch():
			f.condBranches++
			if st.Taken {
				f.takenBranches++
				isRedirect = true
			}
		case in.Op.IsJump():
			f.jumps++
			isRedirect = true
		}
		if in.Op.IsLoad() || in.Op.IsStore() {
			if pos, ok := lastWrite[in.Rs1]; ok && i-pos <= 10 {
				f.memBaseWrittenRecently = true
			}
			line := st.Addr >> 6
			if !l3seen[st.Addr>>7] {
				l3seen[st.Addr>>7] = true
				f.l3Lines++
			}
			for _, a := range accs {
				if a.line == line && !a.store && in.Op.IsStore() && dependsOn(in, a.pos) {
					// a store computed from the result of an older load of the
					// line cannot start before that load has completed: the
					// two are ordered by the register dependence
					continue
				}
				if a.line == line && (a.store || in.Op.IsStore()) {
					f.conflictSameLine = true
					oConflict = append(oConflict, origin{pos: a.pos, line: line, hasLine: true})
					if in.Op.IsLoad() {
						oConflict = append(oConflict, origin{pos: i, reg: in.Rd, hasReg: true})
					}
					if !a.store {
						// the older load may see the younger store: its result is
						// wrong from the load on (also in what was computed from it
						// before the store)
						oConflict = append(oConflict, origin{pos: a.pos, reg: a.rd, hasReg: true})
					}
				}
			}
			accs = append(accs, acc{i, line, in.Op.IsStore(), in.Rd})
		}
		if isRedirect {
			f.redirects++
			// a branch whose operand comes from a load issued just before it
			// resolves after a whole memory latency: the wrong path runs far
			window := 8
			if in.Op.IsCondBranch() {
				for _, r := range in.Reads() {
					for _, d := range dep[r] {
						if i-d <= 6 {
							window = 32
						}
					}
				}
			}
			for k := 1; k <= window; k++ {
				j := int(st.Idx) + k
				if j >= len(p.Insts) {
					break
				}
				sh := p.Insts[j]
				if rd, w := sh.Writes(); w {
					f.shadowHasWork = true
					if in.Op.IsCondBranch() {
						oShadow = append(oShadow, origin{pos: i, reg: rd, hasReg: true})
					}
				}
				if sh.Op.IsStore() {
					f.shadowHasWork = true
					f.shadowHasStore = true
					if in.Op.IsCondBranch() {
						oShadow = append(oShadow, origin{pos: i, memAny: true})
						// an older load still in flight may see the wrong-path store
						for a := len(accs) - 1; a >= 0 && i-accs[a].pos <= 8; a-- {
							if !accs[a].store {
								oShadow = append(oShadow, origin{pos: accs[a].pos, reg: accs[a].rd, hasReg: true})
							}
						}
					}
				}
				if sh.Op.IsLoad() || sh.Op.IsStore() {
					f.shadowHasMem = true
				}
				if sh.Op == isa.DIV || sh.Op == isa.REM || sh.Op.IsJump() || sh.Op.IsCondBranch() {
					f.shadowHasTrap = true
				}
				if sh.Op == isa.DIV || sh.Op == isa.REM {
					f.shadowHasErrTrap = true
				}
				if sh.Label != "" {
					if _, ok := p.Labels[sh.Label]; !ok {
						f.shadowHasTrap = true
						f.shadowHasErrTrap = true
					}
				}
			}
		}
		if rd, w := in.Writes(); w && rd != isa.Zero {
			lastWrite[rd] = i
			var u []int
			for _, r := range in.Reads() {
				if r == isa.Zero {
					continue
				}
				for _, d := range dep[r] {
					dup := false
					for _, e := range u {
						if e == d {
							dup = true
						}
					}
					if !dup {
						u = append(u, d)
					}
				}
			}
			if in.Op.IsLoad() {
				u = append(u, i)
			}
			if len(u) > 64 {
				sort.Ints(u)
				u = u[len(u)-64:]
			}
			dep[rd] = u
		}
	}

	// slow writers: a load's destination, or the destination of an instruction
	// that reads a slow result produced within the last 6 executed instructions
	slowAt := map[isa.Reg]int{}
	writesSinceCommit := map[isa.Reg]int{}
	for i := 0; i < n; i++ {
		in := inst(i)
		if in.Op.IsCondBranch() {
			writesSinceCommit = map[isa.Reg]int{}
		}
		rd, w := in.Writes()
		if !w || rd == isa.Zero {
			continue
		}
		writesSinceCommit[rd]++
		if writesSinceCommit[rd] > 10 {
			f.ringOverflow = true
			oRing = append(oRing, origin{pos: i, reg: rd, hasReg: true})
		}
		// a load that misses every cache level stays in flight for ~360 cycles,
		// two instructions a cycle: the window of a load itself is wide
		win := 16
		if pos, ok := slowAt[rd]; ok && inst(pos).Op.IsLoad() {
			win = 128
		}
		if pos, ok := slowAt[rd]; ok && i-pos <= win && !readsReg(in, rd) {
			// (a younger writer that reads the register waits for the older one)
			f.slowWaw = true
			oSlow = append(oSlow, origin{pos: i, reg: rd, hasReg: true})
		}
		slow := in.Op.IsLoad()
		for _, rs := range in.Reads() {
			if pos, ok := slowAt[rs]; ok && i-pos <= 6 && rs != isa.Zero {
				slow = true
			}
		}
		if slow {
			slowAt[rd] = i
		} else {
			delete(slowAt, rd)
		}
	}
	// a register written twice within 6 instructions with a conditional branch
	// within the next 8 (the older write can be held up by write-bus back-pressure)
	for i := 0; i < n; i++ {
		rd, w := inst(i).Writes()
		if !w || rd == isa.Zero {
			continue
		}
		for j := i + 1; j < n && j <= i+6; j++ {
			rd2, w2 := inst(j).Writes()
			if !w2 || rd2 != rd || readsReg(inst(j), rd) {
				continue
			}
			commit := j >= n-8 // the end of the run commits too
			for k := j + 1; k < n && k <= j+8; k++ {
				if inst(k).Op.IsCondBranch() {
					commit = true
				}
			}
			if commit {
				f.slowWaw = true
				oSlow = append(oSlow, origin{pos: j, reg: rd, hasReg: true})
			}
		}
	}
	// the same behind a store, with wider windows: the write unit(s) can be busy
	// with the store for a whole memory latency, so a register write issued
	// within 16 executed instructions behind a store waits on the write bus; a
	// later writer of that register within the next 16 (also one that reads it:
	// it takes the value from the rename table and does not wait) can overtake
	// it, and a commit within the 16 after that (conditional branch, end of the
	// run) lets the older value land last. Witnesses: the two C01 thorough-tier
	// replays findings/KF-W4b-*.replay.json (one write unit, gone with two).
	{
		behindStore := make([]bool, n)
		commitSoon := make([]bool, n)
		last := -1 << 30
		for i := 0; i < n; i++ {
			behindStore[i] = i-last <= 16
			if inst(i).Op.IsStore() {
				last = i
			}
		}
		next := 1 << 30
		for j := n - 1; j >= 0; j-- {
			commitSoon[j] = j >= n-16 || next-j <= 16
			if inst(j).Op.IsCondBranch() {
				next = j
			}
		}
		for i := 0; i < n; i++ {
			rd, w := inst(i).Writes()
			if !behindStore[i] || !w || rd == isa.Zero {
				continue
			}
			for j := i + 1; j < n && j <= i+16; j++ {
				if rd2, w2 := inst(j).Writes(); w2 && rd2 == rd && commitSoon[j] {
					f.slowWaw = true
					oSlow = append(oSlow, origin{pos: j, reg: rd, hasReg: true})
				}
			}
		}
	}
	// write-after-read seen by a waiting instruction: a load re-reads its base
	// register while it waits for its line; a consumer of a load result reads
	// its other sources when the load completes
	rewritten := func(r isa.Reg, from, span int) bool {
		if r == isa.Zero {
			return false
		}
		for k := from + 1; k < n && k <= from+span; k++ {
			if rd, w := inst(k).Writes(); w && rd == r {
				return true
			}
		}
		return false
	}
	victim := func(j int) {
		in := inst(j)
		f.warLoad = true
		switch {
		case in.Op.IsStore():
			oWar = append(oWar, origin{pos: j, memAny: true})
		case in.Op.IsCondBranch() || in.Op == isa.JALR:
			oWar = append(oWar, origin{pos: j, all: true})
		default:
			if rd, w := in.Writes(); w {
				oWar = append(oWar, origin{pos: j, reg: rd, hasReg: true})
			}
		}
	}
	// behind a store the write unit(s) can be busy for a whole memory latency:
	// the instructions that follow pile up on the buses and in the execute
	// units and read their registers late
	for i := 0; i < n; i++ {
		if !inst(i).Op.IsStore() {
			continue
		}
		for j := i + 1; j < n && j <= i+16; j++ {
			for _, r := range inst(j).Reads() {
				if rewritten(r, j, 8) {
					victim(j)
				}
			}
		}
	}
	for i := 0; i < n; i++ {
		ld := inst(i)
		if ld.Op.IsStore() && (rewritten(ld.Rs1, i, 8) || rewritten(ld.Rs2, i, 8)) {
			// a store can sit in the execute bus behind busy units; it reads its
			// registers when it finally executes
			victim(i)
		}
		if !ld.Op.IsLoad() {
			continue
		}
		if rewritten(ld.Rs1, i, 8) {
			victim(i)
		}
		if ld.Rd == isa.Zero {
			continue
		}
		for j := i + 1; j < n && j <= i+6; j++ {
			cons := inst(j)
			uses := false
			for _, r := range cons.Reads() {
				if r == ld.Rd {
					uses = true
				}
			}
			if !uses {
				continue
			}
			for _, r := range cons.Reads() {
				if rewritten(r, j, 8) {
					victim(j)
				}
			}
		}
	}
	f.tConflict = propagate(p, ref, oConflict)
	f.tShadow = propagate(p, ref, oShadow)
	f.tSlowWaw = propagate(p, ref, oSlow)
	f.tWar = propagate(p, ref, oWar)
	f.tRing = propagate(p, ref, oRing)
	// a program whose branches and jumps all go forward and that has no
	// indirect jump terminates on every path, whatever values it computes
	canLoop := false
	for idx, in := range p.Insts {
		if in.Op == isa.JALR {
			canLoop = true
		}
		if in.Label != "" {
			if t, ok := p.Labels[in.Label]; ok && t <= idx {
				canLoop = true
			}
		}
	}
	for _, t := range []*taint{f.tConflict, f.tShadow, f.tSlowWaw, f.tWar, f.tRing} {
		t.canLoop = canLoop
	}
	return f
}
