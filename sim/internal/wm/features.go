//go:build verifoverlay

package wm

import (
	"verifsim/internal/core"
	"verifsim/internal/isa"
)

// features are facts about a case computed from the program and its REFERENCE
// execution only.
type features struct {
	ref *isa.Result
	// executed counts per op
	ops [isa.NumOps]int
	// Loads / Stores executed
	loads, stores int
	// taken conditional branches and executed jumps
	takenBranches, jumps int
}

func featuresOf(c *core.Case) *features {
	ref := isa.Exec(c.Prog, c.Init, 20000, true)
	if !ref.End.WellFormed() {
		return nil
	}
	f := &features{ref: ref}
	for _, st := range ref.Trace {
		in := c.Prog.Insts[st.Idx]
		f.ops[in.Op]++
		switch {
		case in.Op.IsLoad():
			f.loads++
		case in.Op.IsStore():
			f.stores++
		case in.Op.IsCondBranch() && st.Taken:
			f.takenBranches++
		case in.Op.IsJump():
			f.jumps++
		}
	}
	return f
}
