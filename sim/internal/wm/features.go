//go:build verifoverlay

package wm

import (
	"verifsim/internal/core"
	"verifsim/internal/isa"
)

// features are facts about a case computed from the program text and its
// REFERENCE execution only (never from the machine under test).
type features struct {
	ref *isa.Result
	ops [isa.NumOps]int
	// executed loads / stores / conditional branches / taken branches / jumps
	loads, stores, condBranches, takenBranches, jumps int
	// redirects = taken conditional branches + executed jumps (what can flush)
	redirects int
	// storeThenLoadSameLine: a store is followed (any distance) by a load of the same 64-byte line
	storeThenLoadSameLine bool
	// storeThenAccessSameLine: a store is followed by any access to the same 128-byte region
	storeThenAccessSameRegion bool
	// storesSameLine: two stores touch the same 64-byte line
	storesSameLine bool
	// conflictSameLine: a store and another access (load or store, either order) touch the same 64-byte line
	conflictSameLine bool
	// loadDestOverwritten: the destination register of a load, or of an
	// instruction that waits for a load result (transitively, within 6
	// instructions), is written again by another instruction within 16
	// executed instructions
	loadDestOverwritten bool
	// warAfterLoadUse: a consumer of a load result (within 6 instructions of the
	// load) has another source register that a younger instruction rewrites
	// within 8 executed instructions
	warAfterLoadUse bool
	// memBaseWrittenRecently: a load/store whose base register was written
	// within the 10 executed instructions before it
	memBaseWrittenRecently bool
	// wawBeforeBranch: a register is written twice within 6 executed
	// instructions and a conditional branch follows within 8
	wawBeforeBranch bool
	// ringOverflow: one register is written more than 10 times (the rename
	// ring length) without a conditional branch (commit point) in between
	ringOverflow bool
	// loadBeforeRedirect: a load is followed within 16 executed instructions by a redirect
	loadBeforeRedirect bool
	// memBeforeRedirect: any load/store followed within 24 executed instructions by a redirect
	memBeforeRedirect bool
	// memAfterRedirect: a load/store executes within 24 instructions after a redirect
	memAfterRedirect bool
	// regRewrittenAroundBranch: a register written within 10 executed
	// instructions before a conditional branch is written again within 10
	// instructions after it on the executed path, or statically in the 8
	// instructions following a taken branch (its shadow)
	regRewrittenAroundBranch bool
	// shadowWrites: the 8 instructions that statically follow a taken
	// conditional branch or an executed jump contain a register write or a store
	shadowHasWork bool
	// shadowHasStore: ... contain a store
	shadowHasStore bool
	// shadowHasTrap: ... contain div/rem, a jump (j/jal/jalr), a conditional branch or an undefined label
	shadowHasTrap bool
	// shadowHasErrTrap: ... contain div/rem or a reference to an undefined label
	shadowHasErrTrap bool
	// shadowHasMem: ... contain a load or a store
	shadowHasMem bool
	// shadowHasJump: ... contain a jump or branch
	shadowHasControl bool
	// endsWithMemInFlight: a load or store among the last 6 executed instructions
	memNearEnd bool
	// writes near the end (last 4 executed instructions write a register)
	distinctLines int
	// exitKind: 0 ret, 1 fall-through, 2 jump to end
	exitKind int
	// twoMemSameCycleWindow: two memory accesses within 4 executed instructions of each other
	memClose bool
	executed int
}

func featuresOf(c *core.Case) *features {
	ref := isa.Exec(c.Prog, c.Init, 20000, true)
	if !ref.End.WellFormed() {
		return nil
	}
	p := c.Prog
	f := &features{ref: ref, exitKind: ref.ExitKind, executed: len(ref.Trace)}
	type acc struct {
		pos   int
		line  int32
		store bool
	}
	var accs []acc
	lines := map[int32]bool{}
	lastRedirect := -1000
	lastMem := -1000
	// recent register writes: reg -> position
	lastWrite := map[isa.Reg]int{}
	lastLoadDest := map[isa.Reg]int{}
	// pending "written before branch" sets per branch
	type br struct {
		pos    int
		before map[isa.Reg]bool
	}
	var recentBranches []br
	writesSinceCommit := map[isa.Reg]int{}
	for i, st := range ref.Trace {
		in := p.Insts[st.Idx]
		f.ops[in.Op]++
		isRedirect := false
		switch {
		case in.Op.IsLoad():
			f.loads++
		case in.Op.IsStore():
			f.stores++
		case in.Op.IsCondBranch():
			f.condBranches++
			if st.Taken {
				f.takenBranches++
				isRedirect = true
			}
		case in.Op.IsJump():
			f.jumps++
			isRedirect = true
		}
		if in.Op.IsLoad() || in.Op.IsStore() {
			if pos, ok := lastWrite[in.Rs1]; ok && i-pos <= 10 {
				f.memBaseWrittenRecently = true
			}
			line := st.Addr >> 6
			lines[line] = true
			for _, a := range accs {
				if a.line == line && (a.store || in.Op.IsStore()) {
					f.conflictSameLine = true
				}
				if a.store && a.line>>1 == line>>1 {
					f.storeThenAccessSameRegion = true
				}
				if a.store && a.line == line && in.Op.IsLoad() {
					f.storeThenLoadSameLine = true
				}
				if a.store && a.line == line && in.Op.IsStore() {
					f.storesSameLine = true
				}
			}
			accs = append(accs, acc{i, line, in.Op.IsStore()})
			if i-lastRedirect <= 24 {
				f.memAfterRedirect = true
			}
			if i-lastMem <= 4 {
				f.memClose = true
			}
			lastMem = i
			if len(ref.Trace)-i <= 6 {
				f.memNearEnd = true
			}
		}
		if isRedirect {
			f.redirects++
			lastRedirect = i
			if i-lastMem <= 24 {
				f.memBeforeRedirect = true
			}
			for _, pos := range lastLoadDest {
				if i-pos <= 16 {
					f.loadBeforeRedirect = true
				}
			}
			// static shadow
			for k := 1; k <= 8; k++ {
				j := int(st.Idx) + k
				if j >= len(p.Insts) {
					break
				}
				sh := p.Insts[j]
				if _, w := sh.Writes(); w || sh.Op.IsStore() {
					f.shadowHasWork = true
				}
				if sh.Op.IsLoad() || sh.Op.IsStore() {
					f.shadowHasMem = true
				}
				if sh.Op.IsStore() {
					f.shadowHasStore = true
				}
				if sh.Op == isa.DIV || sh.Op == isa.REM || sh.Op.IsJump() || sh.Op.IsCondBranch() {
					f.shadowHasTrap = true
				}
				if sh.Op == isa.DIV || sh.Op == isa.REM {
					f.shadowHasErrTrap = true
				}
				if sh.Label != "" {
					if _, ok := p.Labels[sh.Label]; !ok {
						f.shadowHasTrap = true
						f.shadowHasErrTrap = true
					}
				}
				if sh.Op.IsJump() || sh.Op.IsCondBranch() || sh.Op == isa.RET {
					f.shadowHasControl = true
				}
			}
		}
		if in.Op.IsCondBranch() {
			writesSinceCommit = map[isa.Reg]int{}
			b := br{pos: i, before: map[isa.Reg]bool{}}
			for r, pos := range lastWrite {
				if i-pos <= 10 {
					b.before[r] = true
				}
			}
			// static shadow of a taken branch
			if st.Taken {
				for k := 1; k <= 8; k++ {
					j := int(st.Idx) + k
					if j >= len(p.Insts) {
						break
					}
					if rd, w := p.Insts[j].Writes(); w && b.before[rd] {
						f.regRewrittenAroundBranch = true
					}
				}
			}
			recentBranches = append(recentBranches, b)
		}
		if rd, w := in.Writes(); w && rd != isa.Zero {
			writesSinceCommit[rd]++
			if writesSinceCommit[rd] > 10 {
				f.ringOverflow = true
			}
			if pos, ok := lastLoadDest[rd]; ok && i-pos <= 16 && pos != i {
				f.loadDestOverwritten = true
			}
			for _, b := range recentBranches {
				if i > b.pos && i-b.pos <= 10 && b.before[rd] {
					f.regRewrittenAroundBranch = true
				}
			}
			lastWrite[rd] = i
			// "slow" results: a load's, or one computed from a slow result produced
			// within the last 6 executed instructions (it waits for the load)
			slow := in.Op.IsLoad()
			for _, rs := range in.Reads() {
				if pos, ok := lastLoadDest[rs]; ok && i-pos <= 6 && rs != isa.Zero {
					slow = true
				}
			}
			if slow {
				lastLoadDest[rd] = i
			} else {
				delete(lastLoadDest, rd)
			}
		}
	}
	for i, st := range ref.Trace {
		ld := p.Insts[st.Idx]
		if !ld.Op.IsLoad() || ld.Rd == isa.Zero {
			continue
		}
		if ld.Rs1 != isa.Zero {
			for k := i + 1; k < len(ref.Trace) && k <= i+8; k++ {
				if rd, w := p.Insts[ref.Trace[k].Idx].Writes(); w && rd == ld.Rs1 {
					f.warAfterLoadUse = true // the load re-reads its base register while it waits for its line
				}
			}
		}
		for j := i + 1; j < len(ref.Trace) && j <= i+6; j++ {
			cons := p.Insts[ref.Trace[j].Idx]
			uses := false
			for _, r := range cons.Reads() {
				if r == ld.Rd {
					uses = true
				}
			}
			if !uses {
				continue
			}
			for _, r := range cons.Reads() {
				if r == isa.Zero {
					continue
				}
				for k := j + 1; k < len(ref.Trace) && k <= j+8; k++ {
					if rd, w := p.Insts[ref.Trace[k].Idx].Writes(); w && rd == r {
						f.warAfterLoadUse = true
					}
				}
			}
		}
	}
	for i, st := range ref.Trace {
		rd, w := p.Insts[st.Idx].Writes()
		if !w || rd == isa.Zero {
			continue
		}
		for j := i + 1; j < len(ref.Trace) && j <= i+6; j++ {
			rd2, w2 := p.Insts[ref.Trace[j].Idx].Writes()
			if !w2 || rd2 != rd {
				continue
			}
			for k := j + 1; k < len(ref.Trace) && k <= j+8; k++ {
				if p.Insts[ref.Trace[k].Idx].Op.IsCondBranch() {
					f.wawBeforeBranch = true
				}
			}
		}
	}
	f.distinctLines = len(lines)
	return f
}
