//go:build verifoverlay

package wm

import (
	"encoding/json"
	"fmt"

	"github.com/teivah/majorana/risc"

	"verifsim/internal/api"
	"verifsim/internal/core"
	"verifsim/internal/findings"
	"verifsim/internal/gen"
	"verifsim/internal/isa"
	"verifsim/internal/mach"
	"verifsim/internal/rng"
)

// C08: determinism and isolation. Self-consistency only: no reference model is
// involved, so the verdict is independent of correctness defects.

type c08 struct{}

// C08 returns the check of property C08.
func C08() api.Check { return c08{} }

func (c08) ID() string { return "C08" }
func (c08) Runs(tier string) int {
	if tier == "thorough" {
		return 60000
	}
	return 1500
}

func (c08) Describe() api.Description {
	d := wholeMachineDesc("one run index = one (program, initial state, variant, parallelism); its outcome (returned cycles, 32 registers, all memory, error/panic/hang status) under the canonical map order is compared with: 6 (thorough 24) other map-order schedules incl. full permutations; the same run repeated after 1..12 unrelated machine runs in the process; the same run interleaved tick by tick with 1..3 other machines under a seeded token scheduler; and a parsed Application first run on another variant and then reused. evaluations = machine executions; distinct_nontrivial = distinct (executed sequence, variant, parallelism) with >= 3 executed instructions and at least one map-order choice point or companion machine",
		[]string{"map-order permutation at every range-over-map visit", "history: unrelated runs earlier in the process", "interleaving with other machines (seeded token passing at ticks)", "reuse of a parsed Application across machines", "second process with another GOMAXPROCS (digest comparison by the driver)"})
	d.Assumptions = append(d.Assumptions,
		"the two helper goroutines (comp.Queue.Iterator, ds.StableMapIteration) are left real and are not scheduled by the harness (DESIGN.md §2.3 S4); their independence from the result is argued there and backed by the cross-process digest comparison",
		"no reference model is consulted: C08 compares the machine with itself")
	return d
}

type detPayload struct {
	payload
	Kind string `json:"kind"`
	// Other schedule / companion parameters
	AltSched  *core.Sched   `json:"alt_schedule,omitempty"`
	History   []uint64      `json:"history_seeds,omitempty"`
	Companion []uint64      `json:"companion_seeds,omitempty"`
	CompCfg   []mach.Config `json:"companion_configs,omitempty"`
	IlvSeed   uint64        `json:"interleaving_seed,omitempty"`
	ReuseOn   *mach.Config  `json:"reuse_first_on,omitempty"`
}

type outcomeKey struct {
	cycles int
	err    string
	pnc    string
	budget bool
	regs   [isa.NumRegs]int32
	memSum uint64
}

func keyOf(o *mach.Outcome) outcomeKey {
	k := outcomeKey{cycles: o.Cycles, err: o.Err, pnc: o.Panic, budget: o.Budget, regs: o.Regs}
	h := uint64(1469598103934665603)
	for _, b := range o.Mem {
		h ^= uint64(uint8(b))
		h *= 1099511628211
	}
	k.memSum = h
	if o.Panic != "" {
		// a run that died is identified by the kind and place of its panic
		k = outcomeKey{pnc: panicKind(o.Panic) + "@" + o.PanicLoc}
	}
	if o.Budget {
		k.cycles = 0 // the tick at which a hang is cut is not an observable of majorana
	}
	return k
}

// panicKind strips the numbers from the text of a Go panic: once a machine
// has panicked (a C07/C01 matter), which byte of an out-of-range store the
// runtime names first is not a result of the run.
func panicKind(s string) string {
	out := make([]byte, 0, len(s))
	for i := 0; i < len(s); i++ {
		if s[i] >= '0' && s[i] <= '9' {
			if n := len(out); n == 0 || out[n-1] != '#' {
				out = append(out, '#')
			}
			continue
		}
		out = append(out, s[i])
	}
	return string(out)
}

func diffOutcome(a, b *mach.Outcome) string {
	if a.Panic != "" && b.Panic != "" {
		// both runs died: the place and kind of the panic are compared, not
		// the partial state left behind
		if panicKind(a.Panic) != panicKind(b.Panic) || a.PanicLoc != b.PanicLoc {
			return fmt.Sprintf("panic %q in %s vs %q in %s", a.Panic, a.PanicLoc, b.Panic, b.PanicLoc)
		}
		return ""
	}
	switch {
	case a.Panic != b.Panic:
		return fmt.Sprintf("panic %q vs %q", a.Panic, b.Panic)
	case a.Budget != b.Budget:
		return fmt.Sprintf("hang %v vs %v", a.Budget, b.Budget)
	case a.Err != b.Err:
		return fmt.Sprintf("error %q vs %q", a.Err, b.Err)
	case !a.Budget && a.Cycles != b.Cycles:
		return fmt.Sprintf("cycles %d vs %d", a.Cycles, b.Cycles)
	}
	for r := isa.Reg(0); r < isa.NumRegs; r++ {
		if a.Regs[r] != b.Regs[r] {
			return fmt.Sprintf("register %s %d vs %d", r, a.Regs[r], b.Regs[r])
		}
	}
	for i := range a.Mem {
		if i < len(b.Mem) && a.Mem[i] != b.Mem[i] {
			return fmt.Sprintf("mem[%d] %d vs %d", i, a.Mem[i], b.Mem[i])
		}
	}
	return ""
}

func fieldOf(diff string) string {
	for i := 0; i < len(diff); i++ {
		if diff[i] == ' ' {
			return diff[:i]
		}
	}
	return diff
}

// detBudget is a fixed tick budget for C08 runs (no reference model is used;
// the executed instruction count is bounded by the generator's step cap).
func detBudget(p *isa.Program, init *isa.State) int {
	ref := isa.Exec(p, init, 20000, true)
	return core.BudgetTicks(len(ref.Trace))
}

func runPlain(cfg mach.Config, p *isa.Program, init *isa.State, s core.Sched, budget int) (*mach.Outcome, core.SchedStats, error) {
	app, err := core.Parse(p)
	if err != nil {
		return nil, core.SchedStats{}, err
	}
	done := core.InstallSched(s)
	out := mach.Run(cfg, app, init, budget, nil)
	return out, done(), nil
}

// coMachine is one machine of an interleaved group.
type coMachine struct {
	cfg     mach.Config
	prog    *isa.Program
	init    *isa.State
	budget  int
	out     *mach.Outcome
	resume  chan struct{}
	quantum int
	hook    func(site, n int) uint64
	st      core.SchedStats
	done    bool
}

// interleave runs the machines concurrently in goroutines, exactly one at a
// time, handing the token over at ticks chosen by r.
func interleave(ms []*coMachine, r *rng.R) (switches int) {
	yield := make(chan int)
	for i, m := range ms {
		m.resume = make(chan struct{})
		m.hook = core.HookFor(core.Sched{Mode: "identity"}, &m.st)
		go func(i int, m *coMachine) {
			<-m.resume
			app, err := core.Parse(m.prog)
			if err != nil {
				m.out = &mach.Outcome{Err: "parse: " + err.Error()}
			} else {
				m.out = mach.Run(m.cfg, app, m.init, m.budget, &mach.Hooks{Tick: func(vm mach.VM, cycle int) {
					m.quantum--
					if m.quantum <= 0 {
						yield <- i
						<-m.resume
					}
				}})
			}
			m.done = true
			yield <- i
		}(i, m)
	}
	left := len(ms)
	every := r.Chance(1, 4) // hand over at every tick
	for left > 0 {
		var cand []int
		for i, m := range ms {
			if !m.done {
				cand = append(cand, i)
			}
		}
		i := cand[r.Intn(len(cand))]
		m := ms[i]
		if every {
			m.quantum = 1
		} else {
			m.quantum = r.Range(1, 60)
		}
		core.SetHook(m.hook)
		m.resume <- struct{}{}
		<-yield
		switches++
		if m.done {
			left--
		}
	}
	core.SetHook(nil)
	return switches
}

func detCase(seed uint64, idx int) (*gen.Case, mach.Config) {
	var c *gen.Case
	if idx%7 == 6 {
		c = gen.ReuseTrap(seed)
		r := rng.New(rng.Derive(seed, 0xC08))
		v := allVariants[(idx/7)%len(allVariants)]
		cfg := configFor(v, idx, r)
		if cfg.EU > 0 && cfg.EU < 3 {
			cfg.EU = 3
		}
		if cfg.Cores > 0 && cfg.Cores < 3 {
			cfg.Cores = 3
		}
		return c, cfg
	}
	if idx%7 == 5 {
		// the variants that route memory instructions by line ownership, on a
		// large image
		c = gen.MemoryHigh(seed)
		r := rng.New(rng.Derive(seed, 0xC08))
		v := []mach.Variant{mach.MVP71, mach.MVP80, mach.MVP70}[(idx/7)%3]
		cfg := configFor(v, idx, r)
		if cfg.Cores < 2 {
			cfg.Cores = 2 + idx%3
		}
		return c, cfg
	}
	switch idx % 3 {
	case 0:
		c = gen.RegPressure(seed)
	case 1:
		c = gen.General(seed)
	default:
		c = gen.Memory(seed)
	}
	r := rng.New(rng.Derive(seed, 0xC08))
	v := allVariants[(idx/3)%len(allVariants)]
	return c, configFor(v, idx/36, r)
}

func (w c08) Run(b api.Batch) *api.Result {
	res := api.NewResult()
	kf := findings.Default()
	nSched := 6
	if b.Tier == "thorough" {
		nSched = 24
	}
	reported := map[string]int{}
	for idx := b.From; idx < b.To; idx++ {
		seed := rng.Derive(b.Seed, uint64(idx))
		c, cfg := detCase(seed, idx)
		r := rng.New(rng.Derive(seed, 0xD37))
		budget := detBudget(c.Prog, c.Init)
		res.Count("inputs", 1)
		res.Count("inputs:"+cfg.V.String(), 1)
		base, st0, err := runPlain(cfg, c.Prog, c.Init, core.Sched{Mode: "identity"}, budget)
		if err != nil {
			continue
		}
		res.Evaluations++
		res.SimCycles += int64(base.Ticks)
		res.Count("sched_choice_points", int64(st0.Visits))
		if st0.Ties > 0 {
			res.Count("HARNESS_nonreplayable_map_order_ties", int64(st0.Ties))
		}
		if idx < 400 {
			k := keyOf(base)
			h := rng.Derive(uint64(idx), uint64(k.cycles), rng.HashString(k.err+"|"+k.pnc), k.memSum)
			for _, v := range k.regs {
				h = rng.Derive(h, uint64(uint32(v)))
			}
			res.Counters["digest_head_sum"] += int64(h >> 2) // additive: merges across workers in any order
		}
		report := func(kind, diff string, p detPayload) {
			class := kind + ":" + fieldOf(diff)
			id := ""
			// KF-D1: instructions keep the operand a forwarding variant (MVP-6.1+)
			// last forwarded to them; a second machine WITHOUT forwarding (MVP-1..6.0,
			// whose decode does not clear it) given the same Application reads it
			if kf.IsOpen("C08", "KF-D1") && kind == "application-reuse" && p.ReuseOn != nil && p.ReuseOn.V >= mach.MVP61 && cfg.V < mach.MVP61 {
				id = "KF-D1"
			}
			if id != "" {
				res.Count("in_known_finding_region_failing:"+id, 1)
				if reported[id] < 2 {
					reported[id]++
					res.Violations = append(res.Violations, api.Violation{Property: "C08", Class: class, Detail: diff, RunIndex: idx, Seed: b.Seed, KnownFinding: id})
				}
				return
			}
			res.Count("violation:"+class, 1)
			if reported[class+cfg.V.String()] >= 3 {
				return
			}
			reported[class+cfg.V.String()]++
			cs := &core.Case{Prog: c.Prog, Init: c.Init, Cfg: cfg, Sched: core.Sched{Mode: "identity"}}
			// minimise the program while the same kind of divergence persists
			if kind == "map-order" && p.AltSched != nil {
				alt := *p.AltSched
				chk := func(cc *core.Case) string {
					if len(cc.Prog.Insts) == 0 {
						return ""
					}
					if ref := isa.Exec(cc.Prog, cc.Init, 20000, false); !ref.End.WellFormed() {
						return "" // not an input of the property
					}
					bud := detBudget(cc.Prog, cc.Init)
					o1, _, e1 := runPlain(cc.Cfg, cc.Prog, cc.Init, core.Sched{Mode: "identity"}, bud)
					o2, _, e2 := runPlain(cc.Cfg, cc.Prog, cc.Init, alt, bud)
					if e1 != nil || e2 != nil {
						return ""
					}
					if d := diffOutcome(o1, o2); d != "" {
						return "map-order:" + fieldOf(d)
					}
					return core.OK
				}
				cs, _ = core.Minimize(cs, class, chk, 600)
				bud := detBudget(cs.Prog, cs.Init)
				o1, _, _ := runPlain(cs.Cfg, cs.Prog, cs.Init, core.Sched{Mode: "identity"}, bud)
				o2, _, _ := runPlain(cs.Cfg, cs.Prog, cs.Init, alt, bud)
				if o1 != nil && o2 != nil {
					diff = diffOutcome(o1, o2)
				}
			}
			var base payload
			json.Unmarshal(encodeCase(cs, "", diff), &base)
			p.payload = base
			p.Kind = kind
			data, _ := json.Marshal(p)
			res.Violations = append(res.Violations, api.Violation{Property: "C08", Class: class + "@" + cfg.V.String(), Detail: diff, RunIndex: idx, Seed: b.Seed, Replay: data})
		}
		nontrivial := st0.Visits > 0
		// (a) other map-order schedules
		for k := 0; k < nSched; k++ {
			s := core.Sched{Mode: "seeded", Seed: r.U64()}
			if k == 0 {
				s = core.Sched{Mode: "reverse"}
			}
			o, _, err := runPlain(cfg, c.Prog, c.Init, s, budget)
			if err != nil {
				continue
			}
			res.Evaluations++
			res.SimCycles += int64(o.Ticks)
			res.Count("executions:other_map_order", 1)
			if d := diffOutcome(base, o); d != "" {
				sc := s
				report("map-order", d, detPayload{AltSched: &sc})
				break
			}
		}
		// (b) history: unrelated runs first
		{
			h := r.Range(1, 12)
			var hs []uint64
			for k := 0; k < h; k++ {
				hseed := r.U64()
				hs = append(hs, hseed)
				hc, hcfg := detCase(hseed, int(hseed%997))
				runPlain(hcfg, hc.Prog, hc.Init, core.Sched{Mode: "seeded", Seed: hseed}, detBudget(hc.Prog, hc.Init))
				res.Evaluations++
			}
			o, _, err := runPlain(cfg, c.Prog, c.Init, core.Sched{Mode: "identity"}, budget)
			if err == nil {
				res.Evaluations++
				res.Count("executions:after_history", 1)
				res.Count("history_runs", int64(h))
				if d := diffOutcome(base, o); d != "" {
					report("history", d, detPayload{History: hs})
				}
			}
		}
		// (c) interleaved with other machines
		{
			k := r.Range(1, 3)
			ms := []*coMachine{{cfg: cfg, prog: c.Prog, init: c.Init, budget: budget}}
			var cs []uint64
			var ccfgs []mach.Config
			for j := 0; j < k; j++ {
				cseed := r.U64()
				cs = append(cs, cseed)
				cc, ccfg := detCase(cseed, int(cseed%997))
				if r.Chance(1, 3) {
					ccfg = cfg // same variant: shared package-level state is most likely there
				}
				ccfgs = append(ccfgs, ccfg)
				ms = append(ms, &coMachine{cfg: ccfg, prog: cc.Prog, init: cc.Init, budget: detBudget(cc.Prog, cc.Init)})
			}
			ilv := r.U64()
			sw := interleave(ms, rng.New(ilv))
			res.Evaluations += int64(len(ms))
			res.Count("executions:interleaved", 1)
			res.Count("companion_machines", int64(k))
			res.Count("token_handovers", int64(sw))
			nontrivial = true
			if d := diffOutcome(base, ms[0].out); d != "" {
				report("interleaving", d, detPayload{Companion: cs, CompCfg: ccfgs, IlvSeed: ilv})
			}
		}
		// (d) a parsed Application reused after a run on another variant
		{
			other := configFor(allVariants[r.Intn(len(allVariants))], r.Intn(16), r)
			if r.Chance(1, 2) {
				// the same machine configuration twice: whatever the first run leaves
				// inside the parsed program meets the very code that left it
				other = cfg
			}
			app, err := core.Parse(c.Prog)
			if err == nil {
				func() {
					done := core.InstallSched(core.Sched{Mode: "identity"})
					defer done()
					mach.Run(other, app, c.Init, budget, nil)
				}()
				var o *mach.Outcome
				func() {
					done := core.InstallSched(core.Sched{Mode: "identity"})
					defer done()
					o = mach.Run(cfg, app, c.Init, budget, nil)
				}()
				res.Evaluations += 2
				res.Count("executions:application_reuse", 1)
				if d := diffOutcome(base, o); d != "" {
					oc := other
					report("application-reuse", d, detPayload{ReuseOn: &oc})
				}
			}
		}
		if nontrivial {
			ref := isa.Exec(c.Prog, c.Init, 20000, true)
			if sig := traceSig(c.Prog, ref); sig != 0 {
				res.Seen(rng.Derive(sig, uint64(cfg.V), uint64(cfg.Parallelism())))
			}
		}
		if len(res.Samples) < 3 && idx%5 == 1 {
			res.AddSample(map[string]any{"run_index": idx, "config": cfg.String(), "assembly": splitLines(c.Prog.Text()),
				"outcome_cycles": base.Cycles, "map_order_choice_points": st0.Visits}, 3)
		}
	}
	return res
}

func (w c08) Replay(data json.RawMessage) (*api.Violation, error) {
	var p detPayload
	if err := json.Unmarshal(data, &p); err != nil {
		return nil, err
	}
	c, err := decodeCase(data)
	if err != nil {
		return nil, err
	}
	budget := detBudget(c.Prog, c.Init)
	base, _, err := runPlain(c.Cfg, c.Prog, c.Init, core.Sched{Mode: "identity"}, budget)
	if err != nil {
		return nil, err
	}
	var o *mach.Outcome
	switch p.Kind {
	case "map-order":
		if p.AltSched == nil {
			return nil, fmt.Errorf("replay lacks alt_schedule")
		}
		o, _, _ = runPlain(c.Cfg, c.Prog, c.Init, *p.AltSched, budget)
	case "history":
		for _, hseed := range p.History {
			hc, hcfg := detCase(hseed, int(hseed%997))
			runPlain(hcfg, hc.Prog, hc.Init, core.Sched{Mode: "seeded", Seed: hseed}, detBudget(hc.Prog, hc.Init))
		}
		o, _, _ = runPlain(c.Cfg, c.Prog, c.Init, core.Sched{Mode: "identity"}, budget)
	case "interleaving":
		ms := []*coMachine{{cfg: c.Cfg, prog: c.Prog, init: c.Init, budget: budget}}
		for j, cseed := range p.Companion {
			cc, ccfg := detCase(cseed, int(cseed%997))
			if j < len(p.CompCfg) {
				ccfg = p.CompCfg[j].Normalize()
			}
			ms = append(ms, &coMachine{cfg: ccfg, prog: cc.Prog, init: cc.Init, budget: detBudget(cc.Prog, cc.Init)})
		}
		interleave(ms, rng.New(p.IlvSeed))
		o = ms[0].out
	case "application-reuse":
		if p.ReuseOn == nil {
			return nil, fmt.Errorf("replay lacks reuse_first_on")
		}
		app, err := core.Parse(c.Prog)
		if err != nil {
			return nil, err
		}
		o = reuseRun(app, *p.ReuseOn, c, budget)
	default:
		return nil, fmt.Errorf("unknown kind %q", p.Kind)
	}
	if o == nil {
		return nil, fmt.Errorf("replay execution failed")
	}
	if d := diffOutcome(base, o); d != "" {
		return &api.Violation{Property: "C08", Class: p.Kind + ":" + fieldOf(d) + "@" + c.Cfg.V.String(), Detail: d, Replay: data}, nil
	}
	return nil, nil
}

func reuseRun(app risc.Application, first mach.Config, c *core.Case, budget int) *mach.Outcome {
	func() {
		done := core.InstallSched(core.Sched{Mode: "identity"})
		defer done()
		mach.Run(first, app, c.Init, budget, nil)
	}()
	done := core.InstallSched(core.Sched{Mode: "identity"})
	defer done()
	return mach.Run(c.Cfg, app, c.Init, budget, nil)
}
