//go:build verifoverlay

package wm

import (
	"encoding/json"
	"fmt"

	"github.com/teivah/majorana/proc/comp"

	"verifsim/internal/api"
	"verifsim/internal/coh"
	"verifsim/internal/core"
	"verifsim/internal/findings"
	"verifsim/internal/gen"
	"verifsim/internal/mach"
	"verifsim/internal/rig"
)

var multiCore = []mach.Variant{mach.MVP70, mach.MVP71, mach.MVP80}

type snapshotter interface {
	VerifSnapshot() comp.VerifSnap
}

// vectors collects the distinct global coherence vectors of a worker.
var cohVectors = map[uint64]struct{}{}

// judgeCoherence runs the program and evaluates I1..I5 at every tick. The
// program's architectural result is NOT judged here (C06 holds "including
// programs whose result is wrong for other reasons").
func judgeCoherence(w *check, c *core.Case) (string, string, runStats) {
	ref, ok := refOf(c, false)
	if !ok {
		return "", "", runStats{}
	}
	app, err := core.Parse(c.Prog)
	if err != nil {
		return core.ParseError, err.Error(), runStats{}
	}
	var first *coh.Violation
	firstTick := 0
	ticks := 0
	var lastFP uint64
	checked, skipped := 0, 0
	done := core.InstallSched(c.Sched)
	out := mach.Run(c.Cfg, app, c.Init, core.BudgetTicks(len(ref.Trace))/budgetDivisor, &mach.Hooks{Tick: func(vm mach.VM, cycle int) {
		ticks++
		if first != nil {
			return
		}
		sn, ok := vm.(snapshotter)
		if !ok {
			return
		}
		s := sn.VerifSnapshot()
		busy := false
		for _, c := range s.Cores {
			if c.ReadBusy || c.WriteBusy || c.SnoopBusy {
				busy = true
			}
		}
		fp := coh.Fingerprint(&s)
		if !busy && fp == lastFP && ticks > 1 {
			skipped++
			return // nothing Check looks at has changed since the last tick that passed
		}
		lastFP = fp
		if len(cohVectors) < 400000 {
			cohVectors[coh.Vector(&s)] = struct{}{}
		}
		checked++
		if v := coh.Check(&s); v != nil {
			first, firstTick = v, ticks
		}
	}})
	ss := done()
	st := statsOf(out, ss, ref)
	st.feat = 0 // distinct = coherence vectors only (added by post)
	st.invChecked, st.invSkipped = checked, skipped
	if first != nil {
		return "invariant:" + first.Inv, fmt.Sprintf("tick %d: %s", firstTick, first.Detail), st
	}
	if out.Panic != "" && (out.Panic == "read is negative" || out.Panic == "write is negative") {
		return "invariant:I5", "lock counter went negative: " + out.Panic + " in " + out.PanicLoc, st
	}
	return core.OK, "", st
}

// c06 is the composite check of property C06: run indices below the machine
// count are whole-machine simulations, the rest go to the controller rig.
type c06 struct {
	m *check
}

func (w c06) ID() string           { return "C06" }
func (w c06) Runs(tier string) int { return w.m.Runs(tier) + rig.Runs(tier) }

func (w c06) Describe() api.Description {
	d := w.m.desc
	rule, faults, assumptions := rig.Describe()
	d.Rule = "(a) whole machine: " + d.Rule + " (b) controller rig: " + rule
	d.FaultKinds = append(d.FaultKinds, faults...)
	d.Assumptions = append(d.Assumptions, assumptions...)
	d.Real = append(d.Real, "rig: real cacheController (snoop/read/write coroutines), msi directory, comp.Sem, comp.LRUCache L1 (and L3 for mvp8), memoryManagementUnit, Context memory")
	d.Stub = []string{"(a) none. (b) rig: the pipeline front end and execute units are replaced by a seeded request generator that steps snoop for every core and then each core's pending request once per cycle, the order CPU.Run uses"}
	d.Level = "exploration"
	return d
}

func (w c06) Run(b api.Batch) *api.Result {
	m := w.m.Runs(b.Tier)
	res := api.NewResult()
	if b.From < m {
		mb := b
		if mb.To > m {
			mb.To = m
		}
		res = w.m.Run(mb)
	}
	if b.To > m {
		kf := findings.Default()
		from := b.From
		if from < m {
			from = m
		}
		for idx := from; idx < b.To; idx++ {
			rig.RunIndex(b.Seed, idx-m, b.Tier, res, kf)
		}
	}
	return res
}

func (w c06) Replay(data json.RawMessage) (*api.Violation, error) {
	var k struct {
		Kind string `json:"kind"`
	}
	json.Unmarshal(data, &k)
	if k.Kind == "rig" {
		return rig.Replay(data)
	}
	return w.m.Replay(data)
}

// C06 returns the check of property C06.
func C06() api.Check { return c06{m: c06machine()} }

// C06 returns the whole-machine part of property C06.
func c06machine() *check {
	d := wholeMachineDesc("one evaluation = one load/store program on MVP-7.0, 7.1 or 8 with 1-4 cores; at EVERY tick a read-only snapshot (protocol states, pending snoop commands, lock counters, every L1 line of every core, L3 lines, memory) is checked for I1 (at most one Modified, then no Shared), I2 (a Shared line equals the next level), I3 (resident in L1 <=> state != Invalid, for lines without a lock, an outstanding command or a busy controller), I4 (no duplicate L1 line, size-aligned bases, full-size data), I5 (lock counters >= 0; a Sem panic counts). The architectural result is not judged. distinct_nontrivial counts STATES, not runs: the distinct global coherence vectors (every (core, line) protocol state that is not Invalid, every outstanding snoop command, every non-zero lock count, which controllers are busy) seen at any evaluated tick of any run of (a) or (b); one run visits many, so the number can exceed evaluations",
		[]string{"requests from 1-4 cores racing on lines", "capacity eviction (working set > L1 / L3)", "snoop evict / write-back", "request cancellation by pipeline flush", "map-order permutation (snoop request order, directory scans)"})
	return &check{
		id: "C06", quick: 700, thorough: 20000,
		variants: multiCore,
		gen: func(seed uint64, idx int, tier string) item {
			switch idx % 3 {
			case 0:
				return item{c: gen.Memory(seed), sub: "memory"}
			case 1:
				return item{c: gen.MemPairs(seed), sub: "mem-pairs"}
			}
			return item{c: gen.General(seed), sub: "general"}
		},
		judge: judgeCoherence,
		desc:  d,
		post: func(res *api.Result) {
			for h := range cohVectors {
				res.Seen(h | 1<<63)
			}
		},
	}
}
