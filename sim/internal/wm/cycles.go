//go:build verifoverlay

package wm

import (
	"fmt"
	"os"

	"verifsim/internal/api"
	"verifsim/internal/core"
	"verifsim/internal/gen"
	"verifsim/internal/isa"
	"verifsim/internal/mach"
	"verifsim/internal/rng"
)

// The documented latency model (README / common/latency, per-type execute
// cycles): the oracle's own copy, deliberately not imported from majorana.
const (
	latRegister = 1
	latMemory   = 309
	latDecode   = 1
	latLoadExec = 50
)

// mvp1Cycles is the analytic cycle count of the unpipelined MVP-1 over the
// reference trace: fetch + decode + optional memory read + execute + write-back.
func mvp1Cycles(p *isa.Program, ref *isa.Result) int {
	total := 0
	for _, st := range ref.Trace {
		in := p.Insts[st.Idx]
		total += latMemory + latDecode // fetch from memory, decode
		if in.Op.IsLoad() {
			total += latMemory + latLoadExec
		} else {
			total += 1
		}
		if in.Op == isa.RET {
			continue // the run returns right after executing ret
		}
		if _, w := in.Writes(); w {
			total += latRegister
		} else if in.Op.IsStore() {
			total += latMemory
		}
	}
	return total
}

// C12 returns the check of property C12 (cycle accounting).
func C12() api.Check {
	return &check{
		id: "C12", quick: 5000, thorough: 250000,
		variants: allVariants,
		gen: func(seed uint64, idx int, tier string) item {
			var c *gen.Case
			if idx%12 == 5 {
				// accesses of every alignment, on the two variants whose count is
				// judged against the latency table (no data cache involved)
				s := rng.Derive(seed, 0x512)
				return item{c: gen.Unaligned(seed), aux: []int{int(uint32(s)), int(uint32(s >> 32))}, sub: "unaligned", only: []mach.Variant{mach.MVP1, mach.MVP2}}
			}
			if idx%3 == 0 {
				c = gen.ISASweep(seed)
			} else if idx%6 == 1 {
				c = gen.DataWalk(seed)
			} else {
				c = gen.General(seed)
			}
			s := rng.Derive(seed, 0x512)
			return item{c: c, aux: []int{int(uint32(s)), int(uint32(s >> 32))}, sub: "cycles"}
		},
		judge: judgeCycles,
		desc: wholeMachineDesc("one evaluation = one run whose returned cycle count is judged: MVP-1 exactly equals the sum over executed instructions of fetch 309 + decode 1 + (309 + 50 for loads, else 1) + write-back (1 register / 309 store; none for the final ret); MVP-2 <= MVP-1 on the same run; every variant > 0 and >= executed / max(2, parallelism); and a second initial state with other data values but the same executed pc sequence and accessed addresses (checked on the reference traces) gives the same count. Runs whose architectural result is wrong are excluded (C01's business). distinct_nontrivial as for C01",
			[]string{"none injected: time is the subject; flush / eviction / forwarding occur through the workload"}),
	}
}

// secondState re-randomises data values; ok only if the reference executes the
// same pc sequence and touches the same addresses.
func secondState(c *core.Case, ref *isa.Result) (*isa.State, *isa.Result, bool) {
	if len(c.Aux) < 2 {
		return nil, nil, false
	}
	r := rng.New(uint64(uint32(c.Aux[0])) | uint64(uint32(c.Aux[1]))<<32)
	// new data values: arbitrary, or (half of the runs) values that look like
	// addresses of this memory, the kind a value-as-address slip would react to
	addrLike := r.Bool()
	var touched []int32
	if addrLike {
		for _, st := range ref.Trace {
			if op := c.Prog.Insts[st.Idx].Op; op.IsLoad() || op.IsStore() {
				touched = append(touched, st.Addr)
			}
		}
	}
	val := func(s *isa.State) int32 {
		if addrLike {
			if len(touched) > 0 && r.Chance(3, 4) {
				// inside a line the program itself accesses
				return touched[r.Intn(len(touched))]&^63 + int32(r.Intn(64))
			}
			return int32(4 * r.Intn(len(s.Mem)/4+1))
		}
		return r.I32()
	}
	// samePath: the candidate state executes the same instruction sequence
	// with the same branch outcomes and the same accessed addresses.
	samePath := func(s *isa.State) (*isa.Result, bool, bool) {
		ref2 := isa.Exec(c.Prog, s, 20000, true)
		if !ref2.End.WellFormed() || ref2.End.DefinedError() || len(ref2.Trace) != len(ref.Trace) || ref2.ExitKind != ref.ExitKind {
			return nil, false, false
		}
		differs := false
		for i := range ref.Trace {
			a, b := ref.Trace[i], ref2.Trace[i]
			if a.Idx != b.Idx || a.Taken != b.Taken {
				return nil, false, false
			}
			op := c.Prog.Insts[a.Idx].Op
			if (op.IsLoad() || op.IsStore()) && a.Addr != b.Addr {
				return nil, false, false
			}
			if a.Value != b.Value {
				differs = true
			}
		}
		return ref2, true, differs
	}
	// greedy construction: memory first, then one register at a time; a change
	// is kept only if path and addresses stay the same
	cur := c.Init.Clone()
	cand := cur.Clone()
	if addrLike {
		for i := 0; i+3 < len(cand.Mem); i += 4 {
			if r.Chance(1, 2) {
				v := val(cand)
				for k := 0; k < 4; k++ {
					cand.Mem[i+k] = int8(uint32(v) >> (8 * uint(k)))
				}
			}
		}
	} else {
		for i := range cand.Mem {
			if r.Chance(1, 2) {
				cand.Mem[i] = int8(r.U64())
			}
		}
	}
	if _, ok, _ := samePath(cand); ok {
		cur = cand
	}
	for reg := isa.Reg(1); reg < isa.NumRegs; reg++ {
		if !r.Chance(2, 3) {
			continue
		}
		cand = cur.Clone()
		cand.Regs[reg] = val(cand)
		if _, ok, _ := samePath(cand); ok {
			cur = cand
		}
	}
	ref2, ok, differs := samePath(cur)
	if !ok || !differs {
		return nil, nil, false // the data did not change anything observable
	}
	return cur, ref2, true
}

func judgeCycles(w *check, c *core.Case) (string, string, runStats) {
	ref, ok := refOf(c, false)
	if !ok {
		return "", "", runStats{}
	}
	out, ss, err := execute(c, ref)
	if err != nil {
		return core.ParseError, err.Error(), runStats{}
	}
	st := statsOf(out, ss, ref)
	st.feat = traceSig(c.Prog, ref)
	if v := core.Compare(ref, out); !v.OK() {
		st.other = true // wrong architectural result: excluded from the timing relations
		return core.OK, "", st
	}
	n := len(ref.Trace)
	width := c.Cfg.Parallelism()
	if width < 2 {
		width = 2
	}
	if out.Cycles <= 0 {
		return "cycles-not-positive", fmt.Sprintf("returned cycle count %d for %d executed instructions", out.Cycles, n), st
	}
	if out.Cycles*width < n {
		return "cycles-below-issue-bound", fmt.Sprintf("%d cycles for %d executed instructions at issue width %d", out.Cycles, n, width), st
	}
	switch c.Cfg.V {
	case mach.MVP1:
		if want := mvp1Cycles(c.Prog, ref); out.Cycles != want {
			return "mvp1-accounting", fmt.Sprintf("MVP-1 returned %d cycles, the latency model gives %d over %d executed instructions", out.Cycles, want, n), st
		}
	case mach.MVP2:
		c1 := c.Clone()
		c1.Cfg = mach.Config{V: mach.MVP1}
		if o1, _, err := execute(c1, ref); err == nil && core.Compare(ref, o1).OK() && out.Cycles > o1.Cycles {
			return "mvp2-slower-than-mvp1", fmt.Sprintf("MVP-2 %d cycles > MVP-1 %d cycles on the same run", out.Cycles, o1.Cycles), st
		}
	}
	if s2, ref2, ok := secondState(c, ref); ok {
		c2 := c.Clone()
		c2.Init = s2
		o2, _, err := execute(c2, ref2)
		if err == nil && core.Compare(ref2, o2).OK() {
			st.pairs = 1
			if o2.Cycles != out.Cycles {
				if os.Getenv("VERIF_DEBUG_C12") != "" {
					for r := isa.Reg(1); r < isa.NumRegs; r++ {
						if s2.Regs[r] != c.Init.Regs[r] {
							fmt.Fprintf(os.Stderr, "reg %s: %d -> %d\n", r, c.Init.Regs[r], s2.Regs[r])
						}
					}
					nd := 0
					for i := range s2.Mem {
						if s2.Mem[i] != c.Init.Mem[i] {
							nd++
						}
					}
					fmt.Fprintf(os.Stderr, "memory bytes changed: %d\n", nd)
				}
				st.verdict = &core.Verdict{Class: "value-dependent-cycles", Any: true}
				return "value-dependent-cycles", fmt.Sprintf("same executed path and addresses, other data values: %d vs %d cycles", out.Cycles, o2.Cycles), st
			}
		}
	}
	return core.OK, "", st
}
