// Package findings reads /verif/KNOWN_FINDINGS.txt (committed, never written
// at run time). Format, one entry per line:
//
//	finding: property=C05 id=KF-07 replay=findings/KF-07.replay.json <what fails>
//	fixed: property=C04 <commit> <what failed>
//
// An open finding has an executable trigger in the check's package (keyed by
// id) and a replay file. A violation that a check tags with the id of an OPEN
// finding is counted, not reported; a fixed entry suppresses nothing.
package findings

import (
	"bufio"
	"fmt"
	"os"
	"strings"

	"verifsim/internal/api"
)

type Finding struct {
	Property string
	ID       string
	Replay   string
	What     string
}

type Set struct {
	open  []Finding
	fixed []string
}

func Load(path string) (*Set, error) {
	s := &Set{}
	f, err := os.Open(path)
	if err != nil {
		if os.IsNotExist(err) {
			return s, nil
		}
		return nil, err
	}
	defer f.Close()
	sc := bufio.NewScanner(f)
	sc.Buffer(make([]byte, 1<<20), 1<<20)
	n := 0
	for sc.Scan() {
		n++
		line := strings.TrimSpace(sc.Text())
		if line == "" || strings.HasPrefix(line, "#") {
			continue
		}
		switch {
		case strings.HasPrefix(line, "fixed:"):
			s.fixed = append(s.fixed, line)
		case strings.HasPrefix(line, "finding:"):
			fd := Finding{}
			rest := strings.Fields(strings.TrimPrefix(line, "finding:"))
			i := 0
			for ; i < len(rest); i++ {
				kv := strings.SplitN(rest[i], "=", 2)
				if len(kv) != 2 {
					break
				}
				switch kv[0] {
				case "property":
					fd.Property = kv[1]
				case "id":
					fd.ID = kv[1]
				case "replay":
					fd.Replay = kv[1]
				default:
					goto done
				}
			}
		done:
			fd.What = strings.Join(rest[i:], " ")
			if fd.Property == "" || fd.ID == "" || fd.Replay == "" {
				return nil, fmt.Errorf("line %d: finding needs property=, id=, replay=", n)
			}
			s.open = append(s.open, fd)
		default:
			return nil, fmt.Errorf("line %d: unknown entry", n)
		}
	}
	return s, sc.Err()
}

// Open lists the open findings of a property.
func (s *Set) Open(prop string) []Finding {
	var out []Finding
	for _, f := range s.open {
		if f.Property == prop {
			out = append(out, f)
		}
	}
	return out
}

// IsOpen reports whether id is an open finding of prop.
func (s *Set) IsOpen(prop, id string) bool {
	for _, f := range s.open {
		if f.Property == prop && f.ID == id {
			return true
		}
	}
	return false
}

// Match returns the id of the open finding a violation was tagged with, or "".
func (s *Set) Match(prop string, v api.Violation) string {
	if v.KnownFinding != "" && s.IsOpen(prop, v.KnownFinding) {
		return v.KnownFinding
	}
	return ""
}

// Default loads $VERIF_DIR/KNOWN_FINDINGS.txt (or /verif/...).
func Default() *Set {
	d := os.Getenv("VERIF_DIR")
	if d == "" {
		d = "/verif"
	}
	s, err := Load(d + "/KNOWN_FINDINGS.txt")
	if err != nil {
		fmt.Fprintln(os.Stderr, "known findings:", err)
		os.Exit(2)
	}
	return s
}
