// Package gen builds well-formed programs and initial states from a seed
// (DESIGN §2.4). Programs are built as isa.Program IR; callers print them and
// feed the text to the real risc.Parse.
package gen

import (
	"fmt"

	"verifsim/internal/isa"
	"verifsim/internal/rng"
)

// Case is one generated workload.
type Case struct {
	Prog *isa.Program
	Init *isa.State
	Tags []string // idioms used, for evidence
	Ref  *isa.Result
}

// Profile biases the generator. Weights are relative.
type Profile struct {
	Name string

	MinSegs, MaxSegs int // number of body segments
	PoolMin, PoolMax int // data registers

	WAlu, WLoad, WStore, WFwdBranch, WLoop, WJumpOver, WCall, WDivRem, WNop, WLi, WPair int

	MemSizes    []int // candidate memory sizes (bytes, multiples of 64)
	AddrRegsMax int   // 1..3
	// NoStores forbids stores everywhere (C04's read-only data area).
	NoStores bool
	// NoMem forbids loads and stores.
	NoMem bool
	// AllowErrors lets the executed path end in a defined error.
	AllowErrors bool
	// SubWord enables lb/lh/sb/sh (otherwise words only).
	SubWord bool
	// WildShifts enables shift amounts outside 0..31.
	WildShifts bool
	// BigImm enables immediates beyond 12 bits on I-type ops.
	BigImm bool
	// LoopMaxIter bounds counted loops.
	LoopMaxIter int
	// BigWorkingSet makes loops walk more lines than the caches hold.
	BigWorkingSet bool
	// UseRa lets ra be used as a data register / link register.
	UseRa bool
	// Endings: weights for ret / fall-through / jump-to-end
	WEndRet, WEndFall, WEndJump int
	// MaxSteps for the reference run.
	MaxSteps int
	// Ops restricts ALU ops (nil = all).
	Ops []isa.Op
	// ShadowDanger: content of never-executed shadows may be dangerous
	// (wild loads, div by zero, undefined labels).
	ShadowDanger bool
}

var dataRegs = []isa.Reg{isa.T0, isa.T1, isa.T2, isa.S0, isa.S1, isa.A0, isa.A1, isa.A2, isa.A3, isa.A4, isa.A5,
	isa.A6, isa.A7, isa.S2, isa.S3, isa.S4, isa.S5, isa.S6, isa.S7}
var addrRegs = []isa.Reg{isa.S8, isa.S9, isa.S10}
var loopRegs = []isa.Reg{isa.S11, isa.T3, isa.T4}
var walkRegs = []isa.Reg{isa.T5, isa.T6}
var scratchRegs = []isa.Reg{isa.Gp, isa.Tp, isa.Sp}

var aluRRR = []isa.Op{isa.ADD, isa.SUB, isa.AND, isa.OR, isa.XOR, isa.MUL, isa.SLL, isa.SRL, isa.SRA, isa.SLT, isa.SLTU}
var aluRRI = []isa.Op{isa.ADDI, isa.ANDI, isa.ORI, isa.XORI, isa.SLLI, isa.SRLI, isa.SRAI, isa.SLTI}
var condBranches = []isa.Op{isa.BEQ, isa.BNE, isa.BLT, isa.BGE, isa.BLE, isa.BLTU, isa.BGEU, isa.BEQZ, isa.BNEZ}

// B is the program builder.
type B struct {
	R    *rng.R
	P    *Profile
	Prog *isa.Program
	Init *isa.State
	Pool []isa.Reg
	Addr []isa.Reg
	// AddrVal is the constant value of each address register.
	AddrVal  map[isa.Reg]int32
	MemSize  int
	labelN   int
	Tags     map[string]bool
	loopDep  int
	freeLoop []isa.Reg
	freeWalk []isa.Reg
	// ReadOnlyFrom: stores never touch [ReadOnlyFrom, MemSize).
	ReadOnlyFrom int
}

func NewBuilder(r *rng.R, p *Profile) *B {
	b := &B{R: r, P: p, Prog: &isa.Program{Labels: map[string]int{}}, Tags: map[string]bool{}, AddrVal: map[isa.Reg]int32{}}
	sizes := p.MemSizes
	if len(sizes) == 0 {
		sizes = []int{256, 512, 1024, 4096}
	}
	b.MemSize = sizes[r.Intn(len(sizes))]
	b.ReadOnlyFrom = b.MemSize - 64
	b.Init = &isa.State{Mem: make([]int8, b.MemSize)}
	// memory image
	switch r.Intn(4) {
	case 0: // small words
		for i := 0; i+3 < b.MemSize; i += 4 {
			b.putWord(i, int32(r.Intn(200)-50))
		}
	case 1: // random bytes
		for i := range b.Init.Mem {
			b.Init.Mem[i] = int8(r.U64())
		}
	case 2: // class words
		for i := 0; i+3 < b.MemSize; i += 4 {
			b.putWord(i, b.Val())
		}
	default: // mostly zero, a few values
		for k := 0; k < b.MemSize/16; k++ {
			b.putWord(4*r.Intn(b.MemSize/4), b.Val())
		}
	}
	// registers
	k := r.Range(max(2, p.PoolMin), max(2, p.PoolMax))
	perm := append([]isa.Reg(nil), dataRegs...)
	r.Shuffle(len(perm), func(i, j int) { perm[i], perm[j] = perm[j], perm[i] })
	if k > len(perm) {
		k = len(perm)
	}
	b.Pool = perm[:k]
	if p.UseRa && r.Chance(1, 3) {
		b.Pool = append(b.Pool, isa.Ra)
	}
	for _, reg := range b.Pool {
		if r.Chance(3, 4) {
			b.Init.Regs[reg] = b.Val()
		}
	}
	// some registers outside the pool keep junk that must survive
	for _, reg := range scratchRegs {
		if r.Chance(1, 3) {
			b.Init.Regs[reg] = b.Val()
		}
	}
	na := r.Range(1, max(1, p.AddrRegsMax))
	for i := 0; i < na && i < len(addrRegs); i++ {
		a := addrRegs[i]
		var v int32
		if i > 0 && r.Chance(1, 3) {
			// alias or same line as a previous one
			v = b.AddrVal[addrRegs[r.Intn(i)]]
			if r.Bool() {
				v = (v &^ 63) + int32(4*r.Intn(16))
			}
		} else {
			v = int32(4 * r.Intn((b.MemSize-64)/4))
		}
		if int(v) > b.MemSize-68 {
			v = int32(b.MemSize - 68)
			v &^= 3
		}
		if v < 0 {
			v = 0
		}
		b.AddrVal[a] = v
		b.Addr = append(b.Addr, a)
		b.Init.Regs[a] = v
	}
	b.freeLoop = append([]isa.Reg(nil), loopRegs...)
	b.freeWalk = append([]isa.Reg(nil), walkRegs...)
	return b
}

func (b *B) putWord(a int, v int32) {
	for i := 0; i < 4; i++ {
		b.Init.Mem[a+i] = int8(uint32(v) >> (8 * uint(i)))
	}
}

func (b *B) Tag(t string) { b.Tags[t] = true }

// Val draws a value from the boundary classes.
func (b *B) Val() int32 {
	r := b.R
	switch r.Intn(12) {
	case 0:
		return 0
	case 1:
		return 1
	case 2:
		return -1
	case 3:
		return int32(r.Intn(100))
	case 4:
		return -int32(r.Intn(100)) - 1
	case 5:
		return 1<<31 - 1
	case 6:
		return -1 << 31
	case 7:
		return int32(1) << uint(7+8*r.Intn(4))
	case 8:
		return int32(0x80) | int32(r.Intn(128))
	case 9:
		return int32(uint32(0xffff8000) | uint32(r.Intn(0x8000)))
	case 10:
		return int32(r.Intn(1 << 16))
	}
	return r.I32()
}

func (b *B) Emit(in isa.Inst) int {
	b.Prog.Insts = append(b.Prog.Insts, in)
	return len(b.Prog.Insts) - 1
}

func (b *B) NewLabel() string {
	b.labelN++
	return fmt.Sprintf("L%d", b.labelN)
}

// Place binds label l to the next instruction.
func (b *B) Place(l string) { b.Prog.Labels[l] = len(b.Prog.Insts) }

func (b *B) Dst() isa.Reg { return b.Pool[b.R.Intn(len(b.Pool))] }

func (b *B) Src() isa.Reg {
	r := b.R
	switch {
	case r.Chance(1, 12):
		return isa.Zero
	case r.Chance(1, 16) && len(b.Addr) > 0:
		return b.Addr[r.Intn(len(b.Addr))]
	case r.Chance(1, 24):
		return scratchRegs[r.Intn(len(scratchRegs))]
	}
	return b.Pool[r.Intn(len(b.Pool))]
}

func (b *B) imm12() int32 {
	r := b.R
	if b.P.BigImm && r.Chance(1, 8) {
		return b.Val()
	}
	switch r.Intn(6) {
	case 0:
		return 0
	case 1:
		return 1
	case 2:
		return -1
	case 3:
		return 2047
	case 4:
		return -2048
	}
	return int32(r.Intn(4096) - 2048)
}

func (b *B) shamt() int32 {
	r := b.R
	if b.P.WildShifts && r.Chance(1, 6) {
		switch r.Intn(4) {
		case 0:
			return 32
		case 1:
			return int32(33 + r.Intn(200))
		case 2:
			return -1
		default:
			return -int32(r.Intn(64)) - 1
		}
	}
	switch r.Intn(5) {
	case 0:
		return 0
	case 1:
		return 31
	case 2:
		return 1
	}
	return int32(r.Intn(32))
}

func (b *B) opAllowed(o isa.Op) bool {
	if len(b.P.Ops) == 0 {
		return true
	}
	for _, x := range b.P.Ops {
		if x == o {
			return true
		}
	}
	return false
}

// Alu emits one random ALU instruction writing rd (or a random pool register if rd==Zero and !forceZero).
func (b *B) Alu() {
	b.AluTo(b.Dst())
}

func (b *B) AluTo(rd isa.Reg) {
	r := b.R
	if r.Chance(1, 40) {
		rd = isa.Zero
		b.Tag("write-zero")
	}
	for tries := 0; tries < 20; tries++ {
		var in isa.Inst
		switch r.Intn(10) {
		case 0, 1, 2, 3:
			op := aluRRR[r.Intn(len(aluRRR))]
			in = isa.Inst{Op: op, Rd: rd, Rs1: b.Src(), Rs2: b.Src()}
			if !b.P.WildShifts && (op == isa.SLL || op == isa.SRL || op == isa.SRA) {
				// keep the amount register in 0..31 with a preceding andi into a scratch register
				s := scratchRegs[r.Intn(len(scratchRegs))]
				if b.opAllowed(op) && b.opAllowed(isa.ANDI) {
					b.Emit(isa.Inst{Op: isa.ANDI, Rd: s, Rs1: in.Rs2, Imm: 31})
					in.Rs2 = s
				}
			}
		case 4, 5, 6:
			op := aluRRI[r.Intn(len(aluRRI))]
			in = isa.Inst{Op: op, Rd: rd, Rs1: b.Src(), Imm: b.imm12()}
			if op == isa.SLLI || op == isa.SRLI || op == isa.SRAI {
				in.Imm = b.shamt()
			}
		case 7:
			in = isa.Inst{Op: isa.MV, Rd: rd, Rs1: b.Src()}
		case 8:
			in = isa.Inst{Op: isa.LI, Rd: rd, Imm: b.Val()}
		default:
			if r.Bool() {
				in = isa.Inst{Op: isa.LUI, Rd: rd, Imm: int32(r.Intn(1 << 20))}
			} else {
				in = isa.Inst{Op: isa.AUIPC, Rd: rd, Imm: int32(r.Intn(1 << 20))}
			}
		}
		if b.opAllowed(in.Op) {
			b.Emit(in)
			return
		}
	}
	b.Emit(isa.Inst{Op: isa.NOP})
}

// DivRem emits a division or remainder whose divisor is non-zero by construction.
func (b *B) DivRem() {
	r := b.R
	op := isa.DIV
	if r.Bool() {
		op = isa.REM
	}
	d := scratchRegs[r.Intn(len(scratchRegs))]
	b.Emit(isa.Inst{Op: isa.ORI, Rd: d, Rs1: b.Src(), Imm: 1})
	b.Emit(isa.Inst{Op: op, Rd: b.Dst(), Rs1: b.Src(), Rs2: d})
	b.Tag("divrem")
}

func (b *B) loadOp() isa.Op {
	if b.P.SubWord {
		return []isa.Op{isa.LW, isa.LW, isa.LH, isa.LB}[b.R.Intn(4)]
	}
	return isa.LW
}
func (b *B) storeOp() isa.Op {
	if b.P.SubWord {
		return []isa.Op{isa.SW, isa.SW, isa.SH, isa.SB}[b.R.Intn(4)]
	}
	return isa.SW
}

// offsetFor picks an aligned in-bounds offset for base value v and size sz,
// within span bytes around the base; store=true keeps clear of the read-only tail.
func (b *B) offsetFor(v int32, sz int, store bool, span int) int32 {
	limit := b.MemSize
	if store {
		limit = b.ReadOnlyFrom
	}
	lo := -int(v)
	if lo < -span {
		lo = -span
	}
	hi := limit - sz - int(v)
	if hi > span {
		hi = span
	}
	if hi < lo {
		return int32(-int(v)) // address 0
	}
	// choose aligned absolute address in [v+lo, v+hi]
	a := int(v) + lo + b.R.Intn(hi-lo+1)
	a -= a % sz
	if a < 0 {
		a = 0
	}
	return int32(a - int(v))
}

// Load emits a load through a constant address register.
func (b *B) Load() { b.LoadTo(b.Dst()) }

func (b *B) LoadTo(rd isa.Reg) {
	if b.P.NoMem || len(b.Addr) == 0 {
		b.Alu()
		return
	}
	a := b.Addr[b.R.Intn(len(b.Addr))]
	op := b.loadOp()
	off := b.offsetFor(b.AddrVal[a], op.AccessSize(), false, 192)
	b.Emit(isa.Inst{Op: op, Rd: rd, Rs1: a, Imm: off})
	b.Tag("load")
}

// Store emits a store through a constant address register.
func (b *B) Store() {
	if b.P.NoMem || b.P.NoStores || len(b.Addr) == 0 {
		b.Alu()
		return
	}
	a := b.Addr[b.R.Intn(len(b.Addr))]
	op := b.storeOp()
	off := b.offsetFor(b.AddrVal[a], op.AccessSize(), true, 192)
	b.Emit(isa.Inst{Op: op, Rs2: b.Src(), Rs1: a, Imm: off})
	b.Tag("store")
}

// Straight emits n random non-control instructions.
func (b *B) Straight(n int) {
	p := b.P
	w := []int{p.WAlu, p.WLoad, p.WStore, p.WDivRem, p.WNop}
	if p.NoMem {
		w[1], w[2] = 0, 0
	}
	if p.NoStores {
		w[2] = 0
	}
	for i := 0; i < n; i++ {
		switch b.R.Pick(w) {
		case 0:
			b.Alu()
		case 1:
			b.Load()
		case 2:
			b.Store()
		case 3:
			b.DivRem()
		default:
			b.Emit(isa.Inst{Op: isa.NOP})
		}
	}
}

// CondBranch builds a random conditional branch to label l.
func (b *B) CondBranch(l string) isa.Inst {
	op := condBranches[b.R.Intn(len(condBranches))]
	in := isa.Inst{Op: op, Rs1: b.Src(), Label: l}
	if op.Shape() == isa.ShapeBranch2 {
		in.Rs2 = b.Src()
	}
	return in
}

// FwdBranch emits a data-dependent forward branch over a well-formed shadow.
func (b *B) FwdBranch() {
	l := b.NewLabel()
	b.Emit(b.CondBranch(l))
	b.Straight(b.R.Range(1, 5))
	b.Place(l)
	b.Tag("fwd-branch")
}

// AlwaysTaken returns a conditional branch to l that is taken whatever the data.
func (b *B) AlwaysTaken(l string, reg isa.Reg) isa.Inst {
	switch b.R.Intn(5) {
	case 0:
		return isa.Inst{Op: isa.BEQ, Rs1: reg, Rs2: reg, Label: l}
	case 1:
		return isa.Inst{Op: isa.BGE, Rs1: reg, Rs2: reg, Label: l}
	case 2:
		return isa.Inst{Op: isa.BLE, Rs1: reg, Rs2: reg, Label: l}
	case 3:
		return isa.Inst{Op: isa.BGEU, Rs1: reg, Rs2: reg, Label: l}
	}
	return isa.Inst{Op: isa.BEQZ, Rs1: isa.Zero, Label: l}
}

// Dangerous emits an instruction that must never execute.
func (b *B) Dangerous() {
	r := b.R
	switch r.Intn(7) {
	case 0: // wild load
		b.Emit(isa.Inst{Op: isa.LW, Rd: b.Dst(), Rs1: isa.Zero, Imm: int32(b.MemSize + 4096*r.Intn(1000))})
		b.Tag("shadow-wild-load")
	case 1:
		b.Emit(isa.Inst{Op: isa.DIV, Rd: b.Dst(), Rs1: b.Src(), Rs2: isa.Zero})
		b.Tag("shadow-div0")
	case 2:
		b.Emit(isa.Inst{Op: isa.J, Label: "undefined_" + b.NewLabel()})
		b.Tag("shadow-undef-label")
	case 3:
		b.Emit(isa.Inst{Op: isa.JAL, Rd: []isa.Reg{isa.Ra, isa.Zero, b.Dst()}[r.Intn(3)], Label: b.anyLabel()})
		b.Tag("shadow-jal")
	case 4:
		b.Emit(isa.Inst{Op: isa.SW, Rs2: b.Src(), Rs1: isa.Zero, Imm: int32(4 * r.Intn(b.ReadOnlyFrom/4))})
		b.Tag("shadow-store")
	case 5:
		b.Emit(isa.Inst{Op: isa.JALR, Rd: b.Dst(), Rs1: b.Src(), Imm: b.imm12()})
		b.Tag("shadow-jalr")
	default:
		b.Emit(isa.Inst{Op: isa.REM, Rd: b.Dst(), Rs1: b.Src(), Rs2: isa.Zero})
		b.Tag("shadow-rem0")
	}
}

func (b *B) anyLabel() string {
	if len(b.Prog.Labels) == 0 {
		return "END"
	}
	// deterministic choice: smallest-numbered existing label index by draw
	k := b.R.Intn(b.labelN) + 1
	for i := 0; i < b.labelN; i++ {
		l := fmt.Sprintf("L%d", (k+i-1)%b.labelN+1)
		if _, ok := b.Prog.Labels[l]; ok {
			return l
		}
	}
	return "END"
}

// JumpOver emits j/jal over dead code.
func (b *B) JumpOver() {
	r := b.R
	l := b.NewLabel()
	switch r.Intn(3) {
	case 0:
		b.Emit(isa.Inst{Op: isa.J, Label: l})
	case 1:
		b.Emit(isa.Inst{Op: isa.JAL, Rd: isa.Zero, Label: l})
	default:
		rd := b.Dst()
		if b.P.UseRa && r.Bool() {
			rd = isa.Ra
		}
		b.Emit(isa.Inst{Op: isa.JAL, Rd: rd, Label: l})
	}
	n := r.Range(0, 4)
	for i := 0; i < n; i++ {
		if b.P.ShadowDanger && r.Chance(1, 3) {
			b.Dangerous()
		} else {
			b.Straight(1)
		}
	}
	b.Place(l)
	b.Tag("jump-over")
}

// Loop emits a counted loop with a straight-line body, optionally walking memory.
func (b *B) Loop() {
	if len(b.freeLoop) == 0 {
		b.Straight(3)
		return
	}
	r := b.R
	c := b.freeLoop[len(b.freeLoop)-1]
	b.freeLoop = b.freeLoop[:len(b.freeLoop)-1]
	defer func() { b.freeLoop = append(b.freeLoop, c) }()
	iters := r.Range(1, max(1, b.P.LoopMaxIter))
	var walk isa.Reg
	stride := 0
	walking := false
	if !b.P.NoMem && len(b.freeWalk) > 0 && r.Chance(2, 3) {
		walking = true
		walk = b.freeWalk[len(b.freeWalk)-1]
		b.freeWalk = b.freeWalk[:len(b.freeWalk)-1]
		defer func() { b.freeWalk = append(b.freeWalk, walk) }()
		strides := []int{4, 4, 8, 64, 64, 68, 128, 60}
		if b.P.BigWorkingSet {
			strides = []int{64, 64, 128, 128, 68, 192}
			iters = r.Range(8, max(8, b.P.LoopMaxIter))
		}
		stride = strides[r.Intn(len(strides))]
		for iters > 1 && (iters-1)*stride+72 > b.ReadOnlyFrom {
			iters--
		}
		maxBase := b.ReadOnlyFrom - ((iters-1)*stride + 72)
		base := 0
		if maxBase > 0 {
			base = 4 * r.Intn(maxBase/4+1)
		}
		b.Emit(isa.Inst{Op: isa.LI, Rd: walk, Imm: int32(base)})
		b.Tag("walk")
	}
	b.Emit(isa.Inst{Op: isa.LI, Rd: c, Imm: int32(iters)})
	top := b.NewLabel()
	b.Place(top)
	n := r.Range(1, 6)
	for i := 0; i < n; i++ {
		if walking && r.Chance(1, 2) {
			// access relative to the walking register: offsets 0..64 aligned
			if !b.P.NoStores && r.Chance(1, 2) {
				op := b.storeOp()
				sz := op.AccessSize()
				off := r.Intn(64/sz+1) * sz
				if off+sz > 68 {
					off = 64
				}
				b.Emit(isa.Inst{Op: op, Rs2: b.Src(), Rs1: walk, Imm: int32(off)})
			} else {
				op := b.loadOp()
				sz := op.AccessSize()
				off := r.Intn(64/sz+1) * sz
				b.Emit(isa.Inst{Op: op, Rd: b.Dst(), Rs1: walk, Imm: int32(off)})
			}
		} else if r.Chance(1, 6) && b.loopDep < 1 {
			b.loopDep++
			b.FwdBranch()
			b.loopDep--
		} else {
			b.Straight(1)
		}
	}
	if walking {
		b.Emit(isa.Inst{Op: isa.ADDI, Rd: walk, Rs1: walk, Imm: int32(stride)})
	}
	b.Emit(isa.Inst{Op: isa.ADDI, Rd: c, Rs1: c, Imm: -1})
	if r.Bool() {
		b.Emit(isa.Inst{Op: isa.BNEZ, Rs1: c, Label: top})
	} else {
		b.Emit(isa.Inst{Op: isa.BLT, Rs1: isa.Zero, Rs2: c, Label: top})
	}
	b.Tag("loop")
}

// Call emits jal ra, F ... with F placed in the epilogue area by Finish.
type pendingFn struct {
	label string
	body  int
}

// callFns is filled by Call and materialised after the ending.
func (b *B) Call(fns *[]pendingFn) {
	link := isa.Ra
	if len(*fns) > 0 && b.R.Chance(1, 2) {
		// a second call site of an existing function: its return (jalr through
		// ra) goes to a different place each time
		f := (*fns)[b.R.Intn(len(*fns))]
		b.Emit(isa.Inst{Op: isa.JAL, Rd: link, Label: f.label})
		b.Tag("call-shared")
		return
	}
	l := b.NewLabel()
	b.Emit(isa.Inst{Op: isa.JAL, Rd: link, Label: l})
	*fns = append(*fns, pendingFn{label: l, body: b.R.Range(1, 4)})
	b.Tag("call")
}

// Pair emits a dependence idiom (RAW chain, WAW, WAR, mixed latency).
func (b *B) Pair() {
	r := b.R
	x := b.Dst()
	switch r.Intn(8) {
	case 0: // RAW chain where the consumer is itself a producer
		n := r.Range(2, 5)
		b.AluTo(x)
		for i := 0; i < n; i++ {
			y := b.Dst()
			b.Emit(isa.Inst{Op: isa.ADDI, Rd: y, Rs1: x, Imm: b.imm12()})
			x = y
		}
		b.Tag("raw-chain")
	case 1: // WAW
		b.AluTo(x)
		b.AluTo(x)
		b.Tag("waw")
	case 2: // WAR
		y := b.Dst()
		b.Emit(isa.Inst{Op: isa.ADD, Rd: y, Rs1: x, Rs2: b.Src()})
		b.AluTo(x)
		b.Tag("war")
	case 3: // mixed latency producers of one register: load then alu
		b.LoadTo(x)
		b.AluTo(x)
		b.Tag("waw-load-alu")
	case 4: // alu then load then use
		b.AluTo(x)
		b.LoadTo(x)
		b.Emit(isa.Inst{Op: isa.ADD, Rd: b.Dst(), Rs1: x, Rs2: x})
		b.Tag("waw-alu-load")
	case 5: // read-modify-write of one line: the store is computed from the load
		if b.P.NoMem || b.P.NoStores || len(b.Addr) == 0 {
			b.AluTo(x)
			b.AluTo(x)
			b.Tag("waw")
			break
		}
		a := b.Addr[r.Intn(len(b.Addr))]
		lop, sop := b.loadOp(), b.storeOp()
		off := b.offsetFor(b.AddrVal[a], 4, true, 192)
		lineOff := func(sz int) int32 {
			abs := (int(b.AddrVal[a])+int(off))&^63 + sz*r.Intn(64/sz)
			return int32(abs - int(b.AddrVal[a]))
		}
		b.Emit(isa.Inst{Op: lop, Rd: x, Rs1: a, Imm: lineOff(lop.AccessSize())})
		b.Emit(isa.Inst{Op: isa.ADDI, Rd: x, Rs1: x, Imm: b.imm12()})
		b.Emit(isa.Inst{Op: sop, Rs2: x, Rs1: a, Imm: lineOff(sop.AccessSize())})
		b.Tag("rmw")
	case 6: // WAR behind a stalled reader: the older reader of y waits for a load
		y := b.Dst()
		l := b.Dst()
		b.LoadTo(l)
		b.Emit(isa.Inst{Op: []isa.Op{isa.ADD, isa.SUB, isa.XOR}[r.Intn(3)], Rd: b.Dst(), Rs1: l, Rs2: y})
		for k := r.Intn(3); k > 0; k-- {
			// other readers of y retire meanwhile (sometimes with y as both sources)
			if r.Bool() {
				b.Emit(isa.Inst{Op: isa.ADD, Rd: b.Dst(), Rs1: y, Rs2: y})
			} else {
				b.Emit(isa.Inst{Op: isa.OR, Rd: b.Dst(), Rs1: y, Rs2: b.Src()})
			}
		}
		b.AluTo(y)
		b.Tag("war-stalled-reader")
	default: // fan
		b.AluTo(x)
		n := r.Range(2, 4)
		for i := 0; i < n; i++ {
			b.Emit(isa.Inst{Op: isa.XOR, Rd: b.Dst(), Rs1: x, Rs2: b.Src()})
		}
		b.Tag("fan")
	}
}

// Body emits the profile's segments.
func (b *B) Body(fns *[]pendingFn) {
	p := b.P
	segs := b.R.Range(p.MinSegs, p.MaxSegs)
	w := []int{p.WAlu, p.WLoad, p.WStore, p.WFwdBranch, p.WLoop, p.WJumpOver, p.WCall, p.WDivRem, p.WNop, p.WLi, p.WPair}
	for i := 0; i < segs && len(b.Prog.Insts) < 200; i++ {
		switch b.R.Pick(w) {
		case 0:
			b.Alu()
		case 1:
			b.Load()
		case 2:
			b.Store()
		case 3:
			b.FwdBranch()
		case 4:
			b.Loop()
		case 5:
			b.JumpOver()
		case 6:
			b.Call(fns)
		case 7:
			b.DivRem()
		case 8:
			b.Emit(isa.Inst{Op: isa.NOP})
		case 9:
			b.Emit(isa.Inst{Op: isa.LI, Rd: b.Dst(), Imm: b.Val()})
		case 10:
			b.Pair()
		}
	}
}

// Ending emits the exit and the functions called from the body.
func (b *B) Ending(fns []pendingFn) {
	p := b.P
	kind := b.R.Pick([]int{p.WEndRet, p.WEndFall, p.WEndJump})
	if len(fns) > 0 && kind == 1 {
		kind = 0 // functions follow: cannot fall through
	}
	switch kind {
	case 0:
		b.Emit(isa.Inst{Op: isa.RET})
		b.Tag("end-ret")
	case 1:
		b.Tag("end-fall")
	default:
		b.Emit(isa.Inst{Op: isa.J, Label: "END"})
		b.Tag("end-jump")
	}
	for _, f := range fns {
		b.Place(f.label)
		b.Straight(f.body)
		b.Emit(isa.Inst{Op: isa.JALR, Rd: isa.Zero, Rs1: isa.Ra, Imm: 0})
	}
	if kind == 2 {
		if len(fns) == 0 && b.R.Bool() {
			// dead code between the jump and the end
			b.Straight(b.R.Range(1, 3))
		}
	}
	b.Prog.Labels["END"] = len(b.Prog.Insts)
}

func (b *B) TagList() []string {
	var out []string
	for t := range b.Tags {
		out = append(out, t)
	}
	sortStrings(out)
	return out
}

func sortStrings(s []string) {
	for i := 1; i < len(s); i++ {
		for j := i; j > 0 && s[j] < s[j-1]; j-- {
			s[j], s[j-1] = s[j-1], s[j]
		}
	}
}

// Generate draws cases from the profile until the reference accepts one.
func Generate(seed uint64, p *Profile) *Case {
	maxSteps := p.MaxSteps
	if maxSteps == 0 {
		maxSteps = 20000
	}
	for try := uint64(0); ; try++ {
		r := rng.New(rng.Derive(seed, try))
		b := NewBuilder(r, p)
		var fns []pendingFn
		if p.UseRa {
			// functions clobber ra; only use calls when ra is not a pool register
		}
		b.Body(&fns)
		b.Ending(fns)
		if len(b.Prog.Insts) == 0 || len(b.Prog.Insts) >= 250 {
			continue
		}
		res := isa.Exec(b.Prog, b.Init, maxSteps, true)
		if !res.End.WellFormed() {
			continue
		}
		if res.End.DefinedError() && !p.AllowErrors {
			continue
		}
		return &Case{Prog: b.Prog, Init: b.Init, Tags: b.TagList(), Ref: res}
	}
}

// Finish validates a hand-built case (used by the site-based profiles).
func Finish(b *B, maxSteps int, allowErrors bool) *Case {
	if len(b.Prog.Insts) == 0 || len(b.Prog.Insts) >= 250 {
		return nil
	}
	res := isa.Exec(b.Prog, b.Init, maxSteps, true)
	if !res.End.WellFormed() || (res.End.DefinedError() && !allowErrors) {
		return nil
	}
	return &Case{Prog: b.Prog, Init: b.Init, Tags: b.TagList(), Ref: res}
}
