package gen

import (
	"verifsim/internal/isa"
	"verifsim/internal/rng"
)

// General is C01's mixed profile (swarm style: knobs vary per run).
func General(seed uint64) *Case {
	r := rng.New(rng.Derive(seed, 0xC01))
	p := &Profile{Name: "general", MinSegs: 2, MaxSegs: 14, PoolMin: 2, PoolMax: 15,
		WAlu: 6, WLoad: r.Intn(4), WStore: r.Intn(4), WFwdBranch: r.Intn(3), WLoop: r.Intn(2), WJumpOver: r.Intn(3),
		WCall: r.Intn(2), WDivRem: r.Intn(2), WNop: 1, WLi: 1, WPair: r.Intn(3),
		AddrRegsMax: 3, SubWord: r.Bool(), WildShifts: r.Chance(1, 3), BigImm: r.Chance(1, 4), LoopMaxIter: r.Range(1, 6),
		BigWorkingSet: r.Chance(1, 8), UseRa: r.Chance(1, 4), ShadowDanger: r.Chance(1, 3),
		WEndRet: 2, WEndFall: 1, WEndJump: 1, MemSizes: []int{256, 512, 1024, 4096, 16384}}
	if r.Chance(1, 5) {
		p.NoMem = true
	}
	return Generate(seed, p)
}

// ISASweep is C01's three-to-five-instruction programs over the boundary lattice.
func ISASweep(seed uint64) *Case {
	for try := uint64(0); ; try++ {
		r := rng.New(rng.Derive(seed, 0x15A, try))
		p := &Profile{Name: "isa-sweep", PoolMin: 3, PoolMax: 4, AddrRegsMax: 1, SubWord: true, WildShifts: true, BigImm: true, MemSizes: []int{256}}
		b := NewBuilder(r, p)
		x, y, z := b.Pool[0], b.Pool[1], b.Pool[2]
		b.Emit(isa.Inst{Op: isa.LI, Rd: x, Imm: b.Val()})
		b.Emit(isa.Inst{Op: isa.LI, Rd: y, Imm: b.Val()})
		op := isa.Op(r.Intn(int(isa.NumOps)))
		rd := z
		if r.Chance(1, 6) {
			rd = x // rd == rs alias
		}
		if r.Chance(1, 12) {
			rd = isa.Zero
		}
		rs1, rs2 := x, y
		if r.Chance(1, 8) {
			rs2 = x
		}
		if r.Chance(1, 10) {
			rs1 = isa.Zero
		}
		a := b.Addr[0]
		switch op.Shape() {
		case isa.ShapeNone:
			b.Emit(isa.Inst{Op: op})
		case isa.ShapeRRR:
			if (op == isa.DIV || op == isa.REM) && !r.Chance(1, 10) {
				b.Emit(isa.Inst{Op: isa.ORI, Rd: y, Rs1: y, Imm: 1})
			}
			b.Emit(isa.Inst{Op: op, Rd: rd, Rs1: rs1, Rs2: rs2})
		case isa.ShapeRRI:
			if op == isa.JALR {
				l := b.NewLabel()
				b.Emit(isa.Inst{Op: isa.LI, Rd: x, Imm: int32(4 * (len(b.Prog.Insts) + 3))})
				b.Emit(isa.Inst{Op: isa.JALR, Rd: rd, Rs1: x, Imm: 0})
				b.Emit(isa.Inst{Op: isa.LI, Rd: y, Imm: 77})
				b.Place(l)
			} else {
				imm := b.imm12()
				if op == isa.SLLI || op == isa.SRLI || op == isa.SRAI {
					imm = b.shamt()
				}
				b.Emit(isa.Inst{Op: op, Rd: rd, Rs1: rs1, Imm: imm})
			}
		case isa.ShapeRI:
			imm := b.Val()
			if op != isa.LI {
				imm = int32(r.Intn(1 << 20))
			}
			b.Emit(isa.Inst{Op: op, Rd: rd, Imm: imm})
		case isa.ShapeRR:
			b.Emit(isa.Inst{Op: op, Rd: rd, Rs1: rs1})
		case isa.ShapeBranch2, isa.ShapeBranch1:
			l := b.NewLabel()
			b.Emit(isa.Inst{Op: op, Rs1: rs1, Rs2: rs2, Label: l})
			b.Emit(isa.Inst{Op: isa.LI, Rd: z, Imm: 55})
			b.Place(l)
			b.Emit(isa.Inst{Op: isa.ADDI, Rd: y, Rs1: y, Imm: 1})
		case isa.ShapeJ:
			l := b.NewLabel()
			b.Emit(isa.Inst{Op: op, Label: l})
			b.Emit(isa.Inst{Op: isa.LI, Rd: z, Imm: 55})
			b.Place(l)
		case isa.ShapeJal:
			l := b.NewLabel()
			b.Emit(isa.Inst{Op: op, Rd: rd, Label: l})
			b.Emit(isa.Inst{Op: isa.LI, Rd: z, Imm: 55})
			b.Place(l)
		case isa.ShapeLoad:
			off := b.offsetFor(b.AddrVal[a], op.AccessSize(), false, 64)
			b.Emit(isa.Inst{Op: op, Rd: rd, Rs1: a, Imm: off})
		case isa.ShapeStore, isa.ShapeStoreH:
			off := b.offsetFor(b.AddrVal[a], op.AccessSize(), true, 64)
			b.Emit(isa.Inst{Op: op, Rs2: rs1, Rs1: a, Imm: off})
			// read it back with every width
			b.Emit(isa.Inst{Op: isa.LW, Rd: z, Rs1: a, Imm: off &^ 3})
		}
		b.Tag("op-" + op.String())
		// a consumer so that the result reaches the final state through another path too
		if r.Bool() {
			b.Emit(isa.Inst{Op: isa.ADD, Rd: y, Rs1: z, Rs2: x})
		}
		switch r.Intn(3) {
		case 0:
			b.Emit(isa.Inst{Op: isa.RET})
		case 1:
			b.Emit(isa.Inst{Op: isa.J, Label: "END"})
		}
		b.Prog.Labels["END"] = len(b.Prog.Insts)
		if c := Finish(b, 2000, false); c != nil {
			return c
		}
	}
}

// RegPressure is C04's profile: few registers, ALU ops and loads from a
// read-only data area, no stores; sub-profile 1 adds forward branches.
func RegPressure(seed uint64) *Case {
	r := rng.New(rng.Derive(seed, 0xC04))
	p := &Profile{Name: "reg-pressure", MinSegs: 3, MaxSegs: 16, PoolMin: 2, PoolMax: 5,
		WAlu: 6, WLoad: 3, WPair: 5, WLi: 1, WNop: 1, NoStores: true, AddrRegsMax: 2, SubWord: r.Bool(),
		WEndRet: 2, WEndFall: 1, WEndJump: 1, MemSizes: []int{256, 1024}}
	switch r.Intn(4) {
	case 0:
		p.NoMem = true
		p.Name = "reg-pressure-alu"
	case 1:
		p.WFwdBranch = 2
		p.Name = "reg-pressure-branch"
	}
	return Generate(seed, p)
}

// Memory is C05's profile: loads/stores of all widths, working sets larger
// than the caches, revisit patterns inside counted loops.
func Memory(seed uint64) *Case {
	r := rng.New(rng.Derive(seed, 0xC05))
	p := &Profile{Name: "memory", MinSegs: 3, MaxSegs: 12, PoolMin: 3, PoolMax: 8,
		WAlu: 3, WLoad: 4, WStore: 4, WLoop: 3, WLi: 1, WFwdBranch: r.Intn(2),
		AddrRegsMax: 3, SubWord: r.Bool(), LoopMaxIter: []int{12, 24, 48, 90}[r.Intn(4)], BigWorkingSet: r.Chance(2, 3),
		WEndRet: 2, WEndFall: 1, WEndJump: 1, MemSizes: []int{1024, 2048, 4096, 8192, 16384, 131072}, MaxSteps: 20000}
	return Generate(seed, p)
}

// MemoryHigh is the Memory profile on a 128 KB image: half of the lines lie
// above 64 KB (address bits the small images never set).
func MemoryHigh(seed uint64) *Case {
	r := rng.New(rng.Derive(seed, 0xC05, 0x1))
	p := &Profile{Name: "memory-high", MinSegs: 3, MaxSegs: 12, PoolMin: 3, PoolMax: 8,
		WAlu: 3, WLoad: 5, WStore: 3, WLoop: 2, WLi: 1, WFwdBranch: r.Intn(2),
		AddrRegsMax: 3, SubWord: r.Bool(), LoopMaxIter: []int{4, 12, 24}[r.Intn(3)],
		WEndRet: 2, WEndFall: 1, WEndJump: 1, MemSizes: []int{131072}, MaxSteps: 20000}
	return Generate(seed, p)
}

// HangProne is C07's profile: C01's ingredients plus the idioms of DESIGN §5/C07.
func HangProne(seed uint64) *Case {
	r := rng.New(rng.Derive(seed, 0xC07))
	if r.Chance(1, 4) {
		return ErrorCase(seed)
	}
	p := &Profile{Name: "hang-prone", MinSegs: 2, MaxSegs: 14, PoolMin: 2, PoolMax: 10,
		WAlu: 4, WLoad: 3, WStore: 3, WFwdBranch: 3, WLoop: 1, WJumpOver: 2, WCall: 2, WDivRem: 1, WNop: 1, WPair: 2,
		AddrRegsMax: 2, SubWord: r.Bool(), LoopMaxIter: 4, ShadowDanger: r.Bool(), UseRa: r.Chance(1, 4),
		WEndRet: 1, WEndFall: 2, WEndJump: 1, MemSizes: []int{256, 1024, 4096}}
	return Generate(seed, p)
}

// ErrorCase builds a program whose executed path ends in a defined error
// (div/rem by zero, taken branch or jump to an undefined label).
func ErrorCase(seed uint64) *Case {
	for try := uint64(0); ; try++ {
		r := rng.New(rng.Derive(seed, 0xE44, try))
		p := &Profile{Name: "error", PoolMin: 2, PoolMax: 6, WAlu: 4, WLoad: 1, WStore: 1, WNop: 1, AddrRegsMax: 1, MemSizes: []int{256}, LoopMaxIter: 3}
		b := NewBuilder(r, p)
		emitErr := func() {
			switch r.Intn(4) {
			case 0:
				b.Emit(isa.Inst{Op: isa.DIV, Rd: b.Dst(), Rs1: b.Src(), Rs2: isa.Zero})
				b.Tag("err-div0")
			case 1:
				b.Emit(isa.Inst{Op: isa.REM, Rd: b.Dst(), Rs1: b.Src(), Rs2: isa.Zero})
				b.Tag("err-rem0")
			case 2:
				b.Emit(b.AlwaysTaken("nowhere", b.Src()))
				b.Tag("err-undef-branch")
			default:
				b.Emit(isa.Inst{Op: isa.J, Label: "nowhere"})
				b.Tag("err-undef-jump")
			}
		}
		switch r.Intn(4) {
		case 0: // first instruction
			emitErr()
			b.Straight(r.Range(0, 4))
		case 1: // middle
			b.Straight(r.Range(1, 6))
			emitErr()
			b.Straight(r.Range(1, 4))
		case 2: // last
			b.Straight(r.Range(1, 6))
			emitErr()
		default: // inside a loop
			c := loopRegs[0]
			b.Emit(isa.Inst{Op: isa.LI, Rd: c, Imm: int32(r.Range(1, 3))})
			top := b.NewLabel()
			b.Place(top)
			b.Straight(r.Range(0, 3))
			emitErr()
			b.Emit(isa.Inst{Op: isa.ADDI, Rd: c, Rs1: c, Imm: -1})
			b.Emit(isa.Inst{Op: isa.BNEZ, Rs1: c, Label: top})
		}
		if r.Bool() {
			b.Emit(isa.Inst{Op: isa.RET})
		}
		b.Prog.Labels["END"] = len(b.Prog.Insts)
		if c := Finish(b, 2000, true); c != nil && c.Ref.End.DefinedError() {
			return c
		}
	}
}

// Site describes one enumerated fault point of a site-based profile.
type Site struct {
	Delay  int // how the branch operand / tail result is produced
	Length int
	Kind   int
	Exit   int
}

// producer emits code leaving a known-non-zero value in reg with the given
// resolution delay: 0 ALU, 1 load (hit if warmed), 2 load from a cold line.
func (b *B) producer(reg isa.Reg, delay int) {
	switch delay {
	case 0:
		b.Emit(isa.Inst{Op: isa.LI, Rd: reg, Imm: int32(b.R.Range(1, 100))})
	case 1: // warm the line first, then load: L1/L3 hit
		a := int32(b.ReadOnlyFrom)
		b.putWord(int(a), int32(b.R.Range(1, 1000)))
		b.Emit(isa.Inst{Op: isa.LW, Rd: reg, Rs1: isa.Zero, Imm: a})
		b.Emit(isa.Inst{Op: isa.LW, Rd: reg, Rs1: isa.Zero, Imm: a})
	default: // cold line
		a := int32(b.ReadOnlyFrom + 4*b.R.Intn(8))
		b.putWord(int(a), int32(b.R.Range(1, 1000)))
		b.Emit(isa.Inst{Op: isa.LW, Rd: reg, Rs1: isa.Zero, Imm: a})
	}
}

// ShadowKinds is the number of shadow kinds C03 enumerates.
const ShadowKinds = 11

// shadowInst emits one wrong-path instruction of the given kind.
func (b *B) shadowInst(kind int) {
	r := b.R
	switch kind {
	case 0: // register write
		b.Alu()
	case 1: // store hit (line touched before) or miss
		b.Emit(isa.Inst{Op: isa.SW, Rs2: b.Src(), Rs1: isa.Zero, Imm: int32(4 * r.Intn(b.ReadOnlyFrom/4))})
	case 2: // load in bounds
		b.Emit(isa.Inst{Op: b.loadOp(), Rd: b.Dst(), Rs1: isa.Zero, Imm: int32(4 * r.Intn(b.MemSize/4))})
	case 3: // wild load
		b.Emit(isa.Inst{Op: isa.LW, Rd: b.Dst(), Rs1: isa.Zero, Imm: int32(b.MemSize + 4096*r.Intn(1000))})
	case 4: // jal writing a link register
		b.Emit(isa.Inst{Op: isa.JAL, Rd: []isa.Reg{isa.Ra, b.Dst()}[r.Intn(2)], Label: "END"})
	case 5: // jalr
		b.Emit(isa.Inst{Op: isa.JALR, Rd: b.Dst(), Rs1: b.Src(), Imm: 0})
	case 6: // div by zero
		b.Emit(isa.Inst{Op: []isa.Op{isa.DIV, isa.REM}[r.Intn(2)], Rd: b.Dst(), Rs1: b.Src(), Rs2: isa.Zero})
	case 7: // undefined label
		b.Emit(isa.Inst{Op: isa.J, Label: "nowhere"})
	case 8: // long-latency then short-latency writer of one register
		x := b.Dst()
		b.Emit(isa.Inst{Op: isa.LW, Rd: x, Rs1: isa.Zero, Imm: int32(4 * r.Intn(b.MemSize/4))})
		b.Emit(isa.Inst{Op: isa.LI, Rd: x, Imm: b.Val()})
	case 9: // second branch
		b.Emit(b.CondBranch("END"))
	default: // sub-word store
		b.Emit(isa.Inst{Op: isa.SB, Rs2: b.Src(), Rs1: isa.Zero, Imm: int32(r.Intn(b.ReadOnlyFrom))})
	}
}

// ShadowSites builds C03's programs: 1-4 shadow sites, each a taken branch
// (or an unconditional jump) whose shadow the reference never executes.
// It returns the case and the index ranges [from,to) of the shadows.
func ShadowSites(seed uint64, s Site) (*Case, [][2]int) {
	for try := uint64(0); ; try++ {
		r := rng.New(rng.Derive(seed, 0xC03, try))
		p := &Profile{Name: "shadow", PoolMin: 2, PoolMax: 8, WAlu: 5, WLoad: 2, WStore: 2, WNop: 1, WPair: 1,
			AddrRegsMax: 2, SubWord: r.Bool(), MemSizes: []int{256, 1024, 4096}}
		b := NewBuilder(r, p)
		var shadows [][2]int
		nsites := r.Range(1, 4)
		for k := 0; k < nsites; k++ {
			b.Straight(r.Range(0, 5))
			delay, length, kind := s.Delay, s.Length, s.Kind
			if k > 0 { // further sites are seeded
				delay, length, kind = r.Intn(3), r.Range(1, 6), r.Intn(ShadowKinds)
			}
			l := b.NewLabel()
			cond := scratchRegs[r.Intn(len(scratchRegs))]
			if r.Chance(1, 4) {
				// unconditional jump over the shadow
				b.Emit(isa.Inst{Op: []isa.Op{isa.J, isa.JAL}[r.Intn(2)], Rd: isa.Zero, Label: l})
				b.Tag("site-jump")
			} else {
				b.producer(cond, delay)
				// cond is non-zero
				switch r.Intn(4) {
				case 0:
					b.Emit(isa.Inst{Op: isa.BNEZ, Rs1: cond, Label: l})
				case 1:
					b.Emit(isa.Inst{Op: isa.BNE, Rs1: cond, Rs2: isa.Zero, Label: l})
				case 2:
					b.Emit(isa.Inst{Op: isa.BLT, Rs1: isa.Zero, Rs2: cond, Label: l})
				default:
					b.Emit(isa.Inst{Op: isa.BGEU, Rs1: cond, Rs2: cond, Label: l})
				}
				b.Tag("site-branch")
			}
			from := len(b.Prog.Insts)
			b.shadowInst(kind)
			for len(b.Prog.Insts)-from < length {
				if r.Chance(1, 3) {
					b.shadowInst(r.Intn(ShadowKinds))
				} else {
					b.Straight(1)
				}
			}
			shadows = append(shadows, [2]int{from, len(b.Prog.Insts)})
			b.Place(l)
		}
		b.Straight(r.Range(0, 4))
		if r.Bool() {
			b.Emit(isa.Inst{Op: isa.RET})
		}
		b.Prog.Labels["END"] = len(b.Prog.Insts)
		c := Finish(b, 5000, false)
		if c == nil {
			continue
		}
		// the reference must not have executed any shadow instruction
		bad := false
		for _, st := range c.Ref.Trace {
			for _, sh := range shadows {
				if int(st.Idx) >= sh[0] && int(st.Idx) < sh[1] {
					bad = true
				}
			}
		}
		if bad {
			continue
		}
		return c, shadows
	}
}

// TailKinds is the number of tail kinds C09 enumerates.
const TailKinds = 8

// Tails builds C09's programs: body + tail + exit. It returns the case and
// the registers / addresses the tail produces (for the drained twin).
func Tails(seed uint64, s Site) (*Case, []isa.Reg) {
	for try := uint64(0); ; try++ {
		r := rng.New(rng.Derive(seed, 0xC09, try))
		p := &Profile{Name: "tail", PoolMin: 3, PoolMax: 8, WAlu: 5, WLoad: 2, WStore: 1, WNop: 1, WPair: 1, WFwdBranch: 1,
			AddrRegsMax: 2, SubWord: r.Bool(), MemSizes: []int{256, 1024, 4096}}
		b := NewBuilder(r, p)
		// body
		n := r.Range(0, 6)
		for i := 0; i < n; i++ {
			if r.Chance(1, 5) {
				b.FwdBranch()
			} else {
				b.Straight(1)
			}
		}
		exitLabel := ""
		if s.Exit == 3 { // ret reached by a taken branch
			exitLabel = b.NewLabel()
		}
		var produced []isa.Reg
		x := b.Dst()
		warm := func(a int32) {
			b.Emit(isa.Inst{Op: isa.LW, Rd: scratchRegs[0], Rs1: isa.Zero, Imm: a})
		}
		for k := 0; k < max(1, s.Length); k++ {
			a := int32(4 * r.Intn(b.ReadOnlyFrom/4))
			switch s.Kind {
			case 0: // missing load
				b.Emit(isa.Inst{Op: b.loadOp(), Rd: x, Rs1: isa.Zero, Imm: a})
			case 1: // hit load
				if k == 0 {
					warm(a &^ 63)
				}
				b.Emit(isa.Inst{Op: isa.LW, Rd: x, Rs1: isa.Zero, Imm: (a &^ 63) + int32(4*r.Intn(16))})
			case 2: // store hit
				if k == 0 {
					warm(a &^ 63)
				}
				b.Emit(isa.Inst{Op: b.storeOp(), Rs2: b.Src(), Rs1: isa.Zero, Imm: (a &^ 63) + int32(4*r.Intn(16))})
			case 3: // store miss
				b.Emit(isa.Inst{Op: b.storeOp(), Rs2: b.Src(), Rs1: isa.Zero, Imm: a})
			case 4: // dependent chain
				y := b.Dst()
				b.Emit(isa.Inst{Op: isa.ADDI, Rd: y, Rs1: x, Imm: b.imm12()})
				x = y
			case 5: // WAW pair
				b.AluTo(x)
				b.AluTo(x)
			case 6: // store then independent load
				b.Emit(isa.Inst{Op: isa.SW, Rs2: b.Src(), Rs1: isa.Zero, Imm: a})
				b.Emit(isa.Inst{Op: isa.LW, Rd: x, Rs1: isa.Zero, Imm: int32(4 * r.Intn(b.MemSize/4))})
			default: // register writes that land on different units
				b.AluTo(x)
				x = b.Dst()
				b.AluTo(x)
			}
			produced = append(produced, x)
			if r.Chance(1, 3) {
				x = b.Dst()
			}
		}
		switch s.Exit {
		case 0:
			b.Emit(isa.Inst{Op: isa.RET})
		case 1: // fall through
		case 2:
			b.Emit(isa.Inst{Op: isa.J, Label: "END"})
			if r.Bool() {
				b.Straight(r.Range(1, 2))
			}
		default:
			b.Emit(b.AlwaysTaken(exitLabel, b.Src()))
			b.Straight(r.Range(1, 2))
			b.Place(exitLabel)
			b.Emit(isa.Inst{Op: isa.RET})
		}
		b.Prog.Labels["END"] = len(b.Prog.Insts)
		if c := Finish(b, 5000, false); c != nil {
			return c, produced
		}
	}
}

// MemPairs builds C10's programs: conflicting access pairs/triples through
// independent address registers holding equal or overlapping addresses.
func MemPairs(seed uint64) *Case {
	for try := uint64(0); ; try++ {
		r := rng.New(rng.Derive(seed, 0xC10, try))
		p := &Profile{Name: "mem-pairs", PoolMin: 3, PoolMax: 8, WAlu: 5, WNop: 2, WLi: 1, AddrRegsMax: 3, SubWord: true, MemSizes: []int{256, 1024, 4096}}
		b := NewBuilder(r, p)
		// two independent address registers with equal / overlapping values
		base := int32(64 * r.Intn((b.ReadOnlyFrom-64)/64))
		a1, a2 := addrRegs[0], addrRegs[1]
		off2 := int32(0)
		switch r.Intn(4) {
		case 1:
			off2 = 4
		case 2:
			off2 = int32(4 * r.Intn(16))
		case 3:
			off2 = 64
		}
		b.Init.Regs[a1], b.AddrVal[a1] = base, base
		b.Init.Regs[a2], b.AddrVal[a2] = base+off2, base+off2
		b.Addr = []isa.Reg{a1, a2}
		// prepare hit/miss state
		for _, a := range b.Addr {
			if r.Bool() {
				b.Emit(isa.Inst{Op: isa.LW, Rd: scratchRegs[0], Rs1: a, Imm: 0})
			}
		}
		b.Straight(r.Range(0, 3))
		groups := r.Range(1, 4)
		for g := 0; g < groups; g++ {
			w := int32(4 * r.Intn(4)) // word inside the line
			ops := r.Range(2, 3)
			for k := 0; k < ops; k++ {
				areg := b.Addr[r.Intn(2)]
				addr := base + w
				off := addr - b.AddrVal[areg]
				store := r.Bool()
				if k == 0 && r.Chance(2, 3) {
					store = true
				}
				if store {
					op := []isa.Op{isa.SW, isa.SW, isa.SB, isa.SH}[r.Intn(4)]
					o := off
					if op == isa.SB {
						o += int32(r.Intn(4))
					} else if op == isa.SH {
						o += int32(2 * r.Intn(2))
					}
					b.Emit(isa.Inst{Op: op, Rs2: b.Src(), Rs1: areg, Imm: o})
				} else {
					op := []isa.Op{isa.LW, isa.LW, isa.LB, isa.LH}[r.Intn(4)]
					o := off
					if op == isa.LB {
						o += int32(r.Intn(4))
					} else if op == isa.LH {
						o += int32(2 * r.Intn(2))
					}
					b.Emit(isa.Inst{Op: op, Rd: b.Dst(), Rs1: areg, Imm: o})
				}
				// distance fillers without register dependence on the accesses
				for d := r.Intn(4); d > 0 && r.Bool(); d-- {
					b.Emit(isa.Inst{Op: isa.NOP})
				}
				if r.Chance(1, 3) {
					b.Alu()
				}
			}
		}
		b.Straight(r.Range(0, 3))
		// drain so that C09's defects (ret overtaking) stay out of the picture
		b.Emit(b.AlwaysTaken("DRAIN", isa.Zero))
		b.Emit(isa.Inst{Op: isa.NOP})
		b.Place("DRAIN")
		for _, reg := range b.Pool {
			b.Emit(isa.Inst{Op: isa.ADD, Rd: reg, Rs1: reg, Rs2: isa.Zero})
		}
		b.Emit(isa.Inst{Op: isa.RET})
		b.Prog.Labels["END"] = len(b.Prog.Insts)
		b.Tag("mem-pairs")
		if c := Finish(b, 5000, false); c != nil {
			return c
		}
	}
}

// StoreThenWalk is a C05 sub-profile: a few stores to distinct lines, then a
// long read-only walk over other lines that displaces them from every cache
// level before the run ends. No line is touched by both a store and another
// access, so the final memory image alone carries the verdict.
func StoreThenWalk(seed uint64) *Case {
	for try := uint64(0); ; try++ {
		r := rng.New(rng.Derive(seed, 0x570, try))
		p := &Profile{Name: "store-then-walk", PoolMin: 3, PoolMax: 6, AddrRegsMax: 1, SubWord: r.Bool(), MemSizes: []int{8192, 16384}}
		b := NewBuilder(r, p)
		// store area: lines 0..15 (1 KB); walk area above
		nst := r.Range(1, 4)
		used := map[int]bool{}
		for k := 0; k < nst; k++ {
			line := r.Intn(16)
			for used[line] {
				line = (line + 1) % 16
			}
			used[line] = true
			op := b.storeOp()
			sz := op.AccessSize()
			off := r.Intn(64/sz) * sz
			// the value comes straight from the initial register file: no register
			// is written before the walk, so no register hazard is involved
			b.Emit(isa.Inst{Op: op, Rs2: b.Pool[k%len(b.Pool)], Rs1: isa.Zero, Imm: int32(64*line + off)})
		}
		stride := []int{64, 128, 128, 192}[r.Intn(4)]
		iters := r.Range(20, 100)
		base := 1024 + 64*r.Intn(4)
		for iters > 1 && base+(iters-1)*stride+8 > b.ReadOnlyFrom {
			iters--
		}
		w, c := walkRegs[0], loopRegs[0]
		b.Emit(isa.Inst{Op: isa.LI, Rd: w, Imm: int32(base)})
		b.Emit(isa.Inst{Op: isa.LI, Rd: c, Imm: int32(iters)})
		top := b.NewLabel()
		b.Place(top)
		b.Emit(isa.Inst{Op: b.loadOp(), Rd: scratchRegs[1], Rs1: w, Imm: int32(4 * r.Intn(2))})
		b.Emit(isa.Inst{Op: isa.ADDI, Rd: w, Rs1: w, Imm: int32(stride)})
		b.Emit(isa.Inst{Op: isa.ADDI, Rd: c, Rs1: c, Imm: -1})
		b.Emit(isa.Inst{Op: isa.BNEZ, Rs1: c, Label: top})
		if r.Chance(1, 3) {
			// read the stored lines back right after the walk (or a few
			// instructions later): the data may be anywhere between L1 and memory
			for k := r.Intn(4); k > 0; k-- {
				b.Emit(isa.Inst{Op: isa.ADDI, Rd: scratchRegs[2], Rs1: scratchRegs[2], Imm: 1})
			}
			for _, in := range append([]isa.Inst(nil), b.Prog.Insts[:nst]...) {
				lop := map[isa.Op]isa.Op{isa.SW: isa.LW, isa.SH: isa.LH, isa.SB: isa.LB}[in.Op]
				b.Emit(isa.Inst{Op: lop, Rd: scratchRegs[0], Rs1: isa.Zero, Imm: in.Imm})
			}
			b.Tag("store-walk-reload")
		}
		if r.Bool() {
			b.Emit(isa.Inst{Op: isa.RET})
		}
		b.Prog.Labels["END"] = len(b.Prog.Insts)
		b.Tag("store-then-walk")
		if cs := Finish(b, 5000, false); cs != nil {
			return cs
		}
	}
}

// EvictWindow is a C05 sub-profile: the displacement distance is enumerated,
// not drawn. One store to a line below 1 KB, then a counted walk that touches
// exactly `iters` further lines at the given stride, then (after `gap` filler
// instructions) a reload of the stored bytes. Sweeping iters over every value
// of a range puts the reload, for some index, into the window in which the
// stored line is being displaced from each cache level (victim chosen,
// write-back not yet finished), whatever the capacity of that level is.
func EvictWindow(seed uint64, iters, stride, gap int) *Case {
	for try := uint64(0); ; try++ {
		r := rng.New(rng.Derive(seed, 0xe71c, try))
		p := &Profile{Name: "evict-window", PoolMin: 3, PoolMax: 6, AddrRegsMax: 1, SubWord: r.Bool(), MemSizes: []int{16384}}
		b := NewBuilder(r, p)
		op := b.storeOp()
		sz := op.AccessSize()
		addr := 64*r.Intn(16) + r.Intn(64/sz)*sz
		b.Emit(isa.Inst{Op: op, Rs2: b.Pool[0], Rs1: isa.Zero, Imm: int32(addr)})
		// the loop must not start in the back-pressure window behind the store
		// (an open finding, KF-W8, owns a loop counter re-read there)
		for k := 0; k < 18; k++ {
			b.Emit(isa.Inst{Op: isa.NOP})
		}
		base := 1024 + 64*r.Intn(2)
		n := iters
		for n > 1 && base+(n-1)*stride+8 > b.ReadOnlyFrom {
			n--
		}
		w, c := walkRegs[0], loopRegs[0]
		b.Emit(isa.Inst{Op: isa.LI, Rd: w, Imm: int32(base)})
		b.Emit(isa.Inst{Op: isa.LI, Rd: c, Imm: int32(n)})
		top := b.NewLabel()
		b.Place(top)
		b.Emit(isa.Inst{Op: isa.LW, Rd: scratchRegs[1], Rs1: w, Imm: 0})
		b.Emit(isa.Inst{Op: isa.ADDI, Rd: w, Rs1: w, Imm: int32(stride)})
		b.Emit(isa.Inst{Op: isa.ADDI, Rd: c, Rs1: c, Imm: -1})
		b.Emit(isa.Inst{Op: isa.BNEZ, Rs1: c, Label: top})
		for k := 0; k < gap; k++ {
			b.Emit(isa.Inst{Op: isa.ADDI, Rd: scratchRegs[2], Rs1: scratchRegs[2], Imm: 1})
		}
		lop := map[isa.Op]isa.Op{isa.SW: isa.LW, isa.SH: isa.LH, isa.SB: isa.LB}[op]
		b.Emit(isa.Inst{Op: lop, Rd: scratchRegs[0], Rs1: isa.Zero, Imm: int32(addr)})
		if r.Bool() {
			b.Emit(isa.Inst{Op: isa.RET})
		}
		b.Prog.Labels["END"] = len(b.Prog.Insts)
		b.Tag("evict-window")
		if cs := Finish(b, 5000, false); cs != nil {
			return cs
		}
	}
}

// Unaligned is a C12 sub-profile for the two variants without a data cache
// (MVP-1, MVP-2): straight-line loads and stores of every width at addresses
// of every alignment (the ISA model has no alignment restriction; the other
// generators only produce naturally aligned accesses), so that the latency
// sum is also checked for accesses that straddle a word or line boundary.
func Unaligned(seed uint64) *Case {
	for try := uint64(0); ; try++ {
		r := rng.New(rng.Derive(seed, 0x0a11, try))
		p := &Profile{Name: "unaligned", PoolMin: 3, PoolMax: 6, AddrRegsMax: 1, SubWord: true, MemSizes: []int{1024, 4096}}
		b := NewBuilder(r, p)
		b.Prog.Misaligned = true
		base := b.Pool[0]
		b.Init.Regs[base] = int32(r.Range(0, 255))
		for k := r.Range(2, 10); k > 0; k-- {
			off := int32(r.Range(0, 600))
			switch r.Intn(4) {
			case 0:
				b.Emit(isa.Inst{Op: b.storeOp(), Rs2: b.Pool[1+r.Intn(len(b.Pool)-1)], Rs1: base, Imm: off})
			case 1:
				b.Emit(isa.Inst{Op: isa.ADDI, Rd: b.Pool[1+r.Intn(len(b.Pool)-1)], Rs1: scratchRegs[0], Imm: int32(r.Intn(7))})
			default:
				b.Emit(isa.Inst{Op: b.loadOp(), Rd: scratchRegs[r.Intn(2)], Rs1: base, Imm: off})
			}
		}
		if r.Bool() {
			b.Emit(isa.Inst{Op: isa.RET})
		}
		b.Prog.Labels["END"] = len(b.Prog.Insts)
		b.Tag("unaligned")
		if c := Finish(b, 2000, false); c != nil {
			return c
		}
	}
}

// ReuseTrap is a C08 sub-profile: one static load executes for real with an
// old base register and, later, on the wrong path of a late-resolving taken
// branch right behind a producer of its base register (so it is forwarded and
// still in flight when the flush comes). Whatever the cancelled instance
// leaves inside the parsed program meets the real instance of the next machine.
func ReuseTrap(seed uint64) *Case {
	for try := uint64(0); ; try++ {
		r := rng.New(rng.Derive(seed, 0x7e5, try))
		p := &Profile{Name: "reuse-trap", PoolMin: 4, PoolMax: 8, AddrRegsMax: 2, MemSizes: []int{1024, 4096}, WAlu: 1}
		b := NewBuilder(r, p)
		base, val, flag, slow := b.Pool[0], b.Pool[1], b.Pool[2], b.Pool[3]
		b.Init.Regs[flag] = 0
		b.Init.Regs[base] = int32(64 * r.Range(1, 4))
		slowAddr := int32(64 * r.Range(6, 12))
		b.putWord(int(slowAddr), 0) // the late branch is taken
		for k := r.Intn(3); k > 0; k-- {
			b.Emit(isa.Inst{Op: isa.NOP})
		}
		b.Emit(isa.Inst{Op: isa.J, Label: "L"})
		b.Place("M")
		b.Emit(isa.Inst{Op: isa.LI, Rd: flag, Imm: 1})
		b.Emit(isa.Inst{Op: isa.LW, Rd: slow, Rs1: isa.Zero, Imm: slowAddr})
		b.Emit(isa.Inst{Op: isa.BEQZ, Rs1: slow, Label: "OUT"})
		for k := r.Intn(2); k > 0; k-- {
			b.Emit(isa.Inst{Op: isa.NOP})
		}
		b.Emit(isa.Inst{Op: isa.ADDI, Rd: base, Rs1: base, Imm: int32(64 * r.Range(1, 3))})
		b.Place("L")
		b.Emit(isa.Inst{Op: b.loadOp(), Rd: val, Rs1: base, Imm: int32(4 * r.Intn(8))})
		b.Emit(isa.Inst{Op: isa.BEQZ, Rs1: flag, Label: "M"})
		b.Place("OUT")
		if r.Bool() {
			b.Emit(isa.Inst{Op: isa.ADD, Rd: b.Pool[len(b.Pool)-1], Rs1: val, Rs2: val})
		}
		if r.Bool() {
			b.Emit(isa.Inst{Op: isa.RET})
		}
		b.Prog.Labels["END"] = len(b.Prog.Insts)
		b.Tag("reuse-trap")
		if c := Finish(b, 2000, false); c != nil {
			return c
		}
	}
}

// DataWalk is a C12 sub-profile: passes over a few cache lines with loads into
// dead registers and stores of registers that hold their initial value, so
// that neither the path nor any address depends on the data: every data value
// can be replaced (value-independence pairs) without changing what executes.
func DataWalk(seed uint64) *Case {
	for try := uint64(0); ; try++ {
		r := rng.New(rng.Derive(seed, 0xda7a, try))
		p := &Profile{Name: "data-walk", PoolMin: 3, PoolMax: 6, AddrRegsMax: 1, SubWord: true, MemSizes: []int{2048, 4096, 8192}}
		b := NewBuilder(r, p)
		base := 64 * r.Range(2, 12)
		w, idx, cnt := walkRegs[0], loopRegs[0], loopRegs[1]
		if r.Chance(1, 2) {
			// stride mode: stores only, every store to a line of its own, one
			// loop with nothing behind it: outside the region of every open
			// finding (no same-line conflict, no wrong-path work, no load)
			n := r.Range(6, 48)
			per := r.Range(1, 3)
			for base+64*(n*per+1) > b.ReadOnlyFrom {
				n--
			}
			b.Emit(isa.Inst{Op: isa.LI, Rd: w, Imm: int32(base)})
			b.Emit(isa.Inst{Op: isa.LI, Rd: cnt, Imm: int32(n)})
			top := b.NewLabel()
			b.Place(top)
			for k := 0; k < per; k++ {
				op := []isa.Op{isa.SB, isa.SH, isa.SW}[r.Intn(3)]
				sz := op.AccessSize()
				b.Emit(isa.Inst{Op: op, Rs2: b.Pool[r.Intn(len(b.Pool))], Rs1: w, Imm: int32(64*k + sz*r.Intn(64/sz))})
			}
			b.Emit(isa.Inst{Op: isa.ADDI, Rd: w, Rs1: w, Imm: int32(64 * per)})
			b.Emit(isa.Inst{Op: isa.ADDI, Rd: cnt, Rs1: cnt, Imm: -1})
			b.Emit(isa.Inst{Op: isa.BNEZ, Rs1: cnt, Label: top})
			b.Prog.Labels["END"] = len(b.Prog.Insts)
			b.Tag("data-walk-stride")
			if cs := Finish(b, 5000, false); cs != nil {
				return cs
			}
			continue
		}
		passes := r.Range(1, 3)
		lines := r.Range(1, 3)
		szlog := r.Intn(3)
		elems := (64 >> uint(szlog)) * r.Range(1, lines)
		if elems > 40 {
			elems = 40
		}
		ops := [][2]isa.Op{{isa.LB, isa.SB}, {isa.LH, isa.SH}, {isa.LW, isa.SW}}[szlog]
		outer := b.NewLabel()
		inner := b.NewLabel()
		b.Emit(isa.Inst{Op: isa.LI, Rd: cnt, Imm: int32(passes)})
		b.Place(outer)
		b.Emit(isa.Inst{Op: isa.LI, Rd: idx, Imm: 0})
		b.Place(inner)
		if szlog > 0 {
			b.Emit(isa.Inst{Op: isa.SLLI, Rd: w, Rs1: idx, Imm: int32(szlog)})
			b.Emit(isa.Inst{Op: isa.ADDI, Rd: w, Rs1: w, Imm: int32(base)})
		} else {
			b.Emit(isa.Inst{Op: isa.ADDI, Rd: w, Rs1: idx, Imm: int32(base)})
		}
		for k := r.Range(1, 4); k > 0; k-- {
			off := int32(64 * r.Intn(lines+1))
			if r.Chance(2, 5) {
				b.Emit(isa.Inst{Op: ops[0], Rd: scratchRegs[r.Intn(2)], Rs1: w, Imm: off})
			} else {
				b.Emit(isa.Inst{Op: ops[1], Rs2: b.Pool[r.Intn(len(b.Pool))], Rs1: w, Imm: off})
			}
		}
		b.Emit(isa.Inst{Op: isa.ADDI, Rd: idx, Rs1: idx, Imm: 1})
		b.Emit(isa.Inst{Op: isa.SLTI, Rd: w, Rs1: idx, Imm: int32(elems)})
		b.Emit(isa.Inst{Op: isa.BNEZ, Rs1: w, Label: inner})
		b.Emit(isa.Inst{Op: isa.ADDI, Rd: cnt, Rs1: cnt, Imm: -1})
		b.Emit(isa.Inst{Op: isa.BNEZ, Rs1: cnt, Label: outer})
		if r.Bool() {
			b.Emit(isa.Inst{Op: isa.RET})
		}
		b.Prog.Labels["END"] = len(b.Prog.Insts)
		b.Tag("data-walk")
		if cs := Finish(b, 5000, false); cs != nil {
			return cs
		}
	}
}

// RMW is a C05/C10 sub-profile: read-modify-write groups, each on a line of
// its own: one or two loads of the line, a value computed from them, a store
// of that value into the same line. The store is ordered behind the loads by
// the register dependence, which is the one same-line pattern MVP-4…6.3 have
// to get right without tracking memory dependences. Optionally a read-only
// walk over other lines displaces the written lines before the run ends.
func RMW(seed uint64) *Case {
	for try := uint64(0); ; try++ {
		r := rng.New(rng.Derive(seed, 0x4d57, try))
		p := &Profile{Name: "rmw", PoolMin: 4, PoolMax: 8, AddrRegsMax: 1, SubWord: true, MemSizes: []int{2048, 4096, 8192}, WAlu: 1}
		b := NewBuilder(r, p)
		groups := r.Range(1, 4)
		used := map[int]bool{}
		a := b.Addr[0]
		abase := int(b.AddrVal[a])
		for g := 0; g < groups; g++ {
			line := r.Intn(12)
			for used[line] {
				line = (line + 1) % 12
			}
			used[line] = true
			lbase := 64 * line
			x, y := b.Pool[(2*g)%len(b.Pool)], b.Pool[(2*g+1)%len(b.Pool)]
			lop := []isa.Op{isa.LW, isa.LW, isa.LH, isa.LB}[r.Intn(4)]
			sz := lop.AccessSize()
			// through the address register when the offset fits, else absolute
			ref := func(addr int) (isa.Reg, int32) {
				if d := addr - abase; r.Bool() && d >= -2048 && d <= 2047 {
					return a, int32(d)
				}
				return isa.Zero, int32(addr)
			}
			rs, off := ref(lbase + sz*r.Intn(64/sz))
			b.Emit(isa.Inst{Op: lop, Rd: x, Rs1: rs, Imm: off})
			two := r.Bool()
			if two {
				o2 := r.Intn(64)
				if r.Chance(1, 3) {
					o2 = 63
				}
				rs2, off2 := ref(lbase + o2)
				b.Emit(isa.Inst{Op: isa.LB, Rd: y, Rs1: rs2, Imm: off2})
			}
			for k := r.Intn(3); k > 0; k-- {
				b.Emit(isa.Inst{Op: isa.NOP})
			}
			if two {
				b.Emit(isa.Inst{Op: []isa.Op{isa.ADD, isa.XOR, isa.SUB}[r.Intn(3)], Rd: x, Rs1: x, Rs2: y})
			} else {
				b.Emit(isa.Inst{Op: isa.ADDI, Rd: x, Rs1: x, Imm: int32(r.Range(1, 100))})
			}
			sop := []isa.Op{isa.SW, isa.SW, isa.SH, isa.SB}[r.Intn(4)]
			ssz := sop.AccessSize()
			rs3, off3 := ref(lbase + ssz*r.Intn(64/ssz))
			b.Emit(isa.Inst{Op: sop, Rs2: x, Rs1: rs3, Imm: off3})
		}
		if r.Bool() {
			// displace: a counted read-only walk over lines 16..
			w, c := walkRegs[0], loopRegs[0]
			iters := r.Range(17, 40)
			for 1024+64*iters+8 > b.ReadOnlyFrom {
				iters--
			}
			b.Emit(isa.Inst{Op: isa.LI, Rd: w, Imm: 1024})
			b.Emit(isa.Inst{Op: isa.LI, Rd: c, Imm: int32(iters)})
			top := b.NewLabel()
			b.Place(top)
			b.Emit(isa.Inst{Op: isa.LW, Rd: scratchRegs[1], Rs1: w, Imm: 0})
			b.Emit(isa.Inst{Op: isa.ADDI, Rd: w, Rs1: w, Imm: 64})
			b.Emit(isa.Inst{Op: isa.ADDI, Rd: c, Rs1: c, Imm: -1})
			b.Emit(isa.Inst{Op: isa.BNEZ, Rs1: c, Label: top})
		}
		if r.Bool() {
			b.Emit(isa.Inst{Op: isa.RET})
		}
		b.Prog.Labels["END"] = len(b.Prog.Insts)
		b.Tag("rmw")
		if cs := Finish(b, 5000, false); cs != nil {
			return cs
		}
	}
}

// LockShadow is a C07/C10 sub-profile: a load miss of line X, optionally an
// older access to X behind it, a conditional branch that depends on the
// loaded value and is taken, and in its shadow a load of X (never a store:
// that is KF-W3's business). Several units hold or want the lock of one line
// at the moment the branch is found mispredicted.
func LockShadow(seed uint64) *Case {
	for try := uint64(0); ; try++ {
		r := rng.New(rng.Derive(seed, 0x10c5, try))
		p := &Profile{Name: "lock-shadow", PoolMin: 5, PoolMax: 8, AddrRegsMax: 1, SubWord: true, MemSizes: []int{1024, 4096}, WAlu: 1}
		b := NewBuilder(r, p)
		a := b.Addr[0]
		line := (int(b.AddrVal[a]) &^ 63)
		if line+64 > b.ReadOnlyFrom {
			line = 0
		}
		at := func(sz int) int32 { return int32(line + sz*r.Intn(64/sz) - int(b.AddrVal[a])) }
		x, y, z, w := b.Pool[0], b.Pool[1], b.Pool[2], b.Pool[3]
		groups := r.Range(1, 2)
		for g := 0; g < groups; g++ {
			// the loaded word decides the branch: make it known
			off := at(4)
			val := int32(0)
			if r.Bool() {
				val = int32(r.Range(1, 100))
			}
			b.putWord(int(b.AddrVal[a])+int(off), val)
			for k := r.Intn(3); k > 0; k-- {
				b.Emit(isa.Inst{Op: isa.NOP})
			}
			b.Emit(isa.Inst{Op: isa.LW, Rd: x, Rs1: a, Imm: off})
			switch r.Intn(3) {
			case 0:
				sop := []isa.Op{isa.SW, isa.SH, isa.SB}[r.Intn(3)]
				so := at(sop.AccessSize())
				for so == off { // keep the branch operand's word as it is
					so = at(sop.AccessSize())
					if sop != isa.SW {
						break
					}
				}
				if sop == isa.SW && so == off {
					b.Emit(isa.Inst{Op: isa.NOP})
				} else if int(so)/4 == int(off)/4 && sop != isa.SW {
					b.Emit(isa.Inst{Op: isa.LB, Rd: y, Rs1: a, Imm: at(1)})
				} else {
					b.Emit(isa.Inst{Op: sop, Rs2: w, Rs1: a, Imm: so})
				}
			case 1:
				b.Emit(isa.Inst{Op: isa.LH, Rd: y, Rs1: a, Imm: at(2)})
			}
			l := b.NewLabel()
			if val == 0 {
				b.Emit(isa.Inst{Op: isa.BEQZ, Rs1: x, Label: l})
			} else {
				b.Emit(isa.Inst{Op: isa.BNEZ, Rs1: x, Label: l})
			}
			for k := r.Range(1, 3); k > 0; k-- {
				if r.Chance(2, 3) {
					lop := []isa.Op{isa.LW, isa.LH, isa.LB}[r.Intn(3)]
					b.Emit(isa.Inst{Op: lop, Rd: z, Rs1: a, Imm: at(lop.AccessSize())})
				} else {
					b.Emit(isa.Inst{Op: isa.ADDI, Rd: z, Rs1: z, Imm: 1})
				}
			}
			b.Place(l)
			// another line for the next group
			line = (line + 64*r.Range(1, 5)) % (b.ReadOnlyFrom &^ 63)
			if d := line - int(b.AddrVal[a]); d < -1900 || d > 1900 {
				line = int(b.AddrVal[a]) &^ 63
			}
		}
		if r.Bool() {
			b.Emit(isa.Inst{Op: isa.RET})
		}
		b.Prog.Labels["END"] = len(b.Prog.Insts)
		b.Tag("lock-shadow")
		if cs := Finish(b, 2000, false); cs != nil {
			return cs
		}
	}
}
