//go:build verif

package rig

import (
	"fmt"
	"os"
	"sort"
	"strconv"
	"testing"
	"time"

	"verifsim/internal/api"
	"verifsim/internal/findings"
)

// TestExplore is a manual exploration aid: RIG_EXPLORE=<n> go test -run TestExplore -v
func TestExplore(t *testing.T) {
	n, _ := strconv.Atoi(os.Getenv("RIG_EXPLORE"))
	if n == 0 {
		t.Skip("set RIG_EXPLORE")
	}
	tier := os.Getenv("RIG_TIER")
	if tier == "" {
		tier = "quick"
	}
	kf, _ := findings.Load(os.Getenv("RIG_KF"))
	res := api.NewResult()
	debugFacts = true
	start := time.Now()
	from, _ := strconv.Atoi(os.Getenv("RIG_FROM"))
	for i := from; i < from+n; i++ {
		RunIndex(1, i, tier, res, kf)
	}
	fmt.Printf("evals=%d cycles=%d distinct=%d inconclusive=%d wall=%v\n", res.Evaluations, res.SimCycles, len(res.Distinct), res.Inconclusive, time.Since(start))
	var ks []string
	for k := range res.Counters {
		ks = append(ks, k)
	}
	sort.Strings(ks)
	for _, k := range ks {
		fmt.Printf("  %-60s %d\n", k, res.Counters[k])
	}
	for _, v := range res.Violations {
		fmt.Printf("VIOL %s kf=%q run=%d: %s\n", v.Class, v.KnownFinding, v.RunIndex, v.Detail)
		if os.Getenv("RIG_PAYLOAD") != "" {
			fmt.Printf("   %s\n", string(v.Replay))
		}
	}
}
