//go:build verif

package rig

import (
	"github.com/teivah/majorana/proc/comp"
)

// fake is a small MSI machine behind the same adapter interface as the real
// controllers. Every request has a fixed latency and takes effect atomically
// in its completing step, so the correct version satisfies every check; the
// bug switches break exactly one thing each.
type fake struct {
	mem   []int8
	cores []*fakeCore
	bug   string
}

type fakeLine struct {
	base  int32
	data  []int8
	state int32
}

type fakeCore struct {
	lines []*fakeLine // most recently used first
	// pending request
	busy   bool
	write  bool
	left   int
	first  []int8 // non-atomic read: the half sampled at issue
	wedged bool
}

const fakeLatency = 6

func newFake(bug string) func(mem, cores int) machine {
	return func(mem, cores int) machine {
		f := &fake{mem: make([]int8, mem), bug: bug}
		for i := 0; i < cores; i++ {
			f.cores = append(f.cores, &fakeCore{})
		}
		return f
	}
}

func init() {
	for _, b := range []string{"ok", "two-modified", "stale-shared", "lost-write", "torn-read", "cancel-wedges", "cancel-panics", "cancelled-write-lands"} {
		factories["fake-"+b] = newFake(b)
	}
}

func (f *fake) Cores() int     { return len(f.cores) }
func (f *fake) Memory() []int8 { return f.mem }
func (f *fake) Snoop(int)      {}
func (f *fake) Idle(c int) bool {
	return !f.cores[c].busy
}

func (c *fakeCore) find(base int32) *fakeLine {
	for i, l := range c.lines {
		if l.base == base {
			copy(c.lines[1:i+1], c.lines[:i])
			c.lines[0] = l
			return l
		}
	}
	return nil
}

func (c *fakeCore) drop(base int32) {
	for i, l := range c.lines {
		if l.base == base {
			c.lines = append(c.lines[:i], c.lines[i+1:]...)
			return
		}
	}
}

func (f *fake) writeBack(l *fakeLine) { copy(f.mem[l.base:], l.data) }

// acquire makes the line resident in core c with at least the wanted state.
func (f *fake) acquire(ci int, base int32, want int32) *fakeLine {
	c := f.cores[ci]
	for oi, o := range f.cores {
		if oi == ci {
			continue
		}
		l := o.find(base)
		if l == nil {
			continue
		}
		switch {
		case l.state == stateMod && want == stateMod && f.bug == "two-modified":
			// bug: the other owner keeps its Modified copy
		case l.state == stateMod:
			if f.bug != "lost-write" {
				f.writeBack(l)
			}
			o.drop(base)
		case want == stateMod && f.bug != "stale-shared":
			o.drop(base)
		}
	}
	l := c.find(base)
	if l == nil {
		l = &fakeLine{base: base, data: append([]int8(nil), f.mem[base:base+l1LineSize]...)}
		c.lines = append([]*fakeLine{l}, c.lines...)
		if len(c.lines) > l1Lines {
			v := c.lines[len(c.lines)-1]
			if v.state == stateMod {
				f.writeBack(v)
			}
			c.lines = c.lines[:l1Lines]
		}
		l.state = stateShared
	}
	if want == stateMod {
		l.state = stateMod
		if f.bug == "stale-shared" {
			l.state = stateShared // write-through variant: stays Shared, memory updated below
		}
	}
	return l
}

func (f *fake) start(ci int, write bool, addrs []int32) *fakeCore {
	c := f.cores[ci]
	if !c.busy {
		c.busy, c.write, c.left, c.first = true, write, fakeLatency, nil
		if !write && f.bug == "torn-read" && len(addrs) == 4 {
			// bug: the low half is sampled now, the high half at completion
			l := f.acquire(ci, lineOf(addrs[0]), stateShared)
			o := addrs[0] - l.base
			c.first = append([]int8(nil), l.data[o:o+2]...)
		}
	}
	return c
}

func (f *fake) Read(ci, cycle int, addrs []int32) ([]int8, bool) {
	c := f.start(ci, false, addrs)
	if c.wedged {
		return nil, false
	}
	if c.left > 0 {
		c.left--
		return nil, false
	}
	l := f.acquire(ci, lineOf(addrs[0]), stateShared)
	o := addrs[0] - l.base
	out := append([]int8(nil), l.data[o:o+int32(len(addrs))]...)
	if c.first != nil {
		copy(out, c.first)
	}
	c.busy = false
	return out, true
}

func (f *fake) Write(ci, cycle int, addrs []int32, data []int8) bool {
	c := f.start(ci, true, addrs)
	if c.wedged {
		return false
	}
	if c.left > 0 {
		c.left--
		if c.left == 2 && f.bug == "cancelled-write-lands" {
			// bug: the data is stored before the request completes
			l := f.acquire(ci, lineOf(addrs[0]), stateMod)
			copy(l.data[addrs[0]-l.base:], data)
		}
		return false
	}
	l := f.acquire(ci, lineOf(addrs[0]), stateMod)
	copy(l.data[addrs[0]-l.base:], data)
	if f.bug == "stale-shared" {
		copy(f.mem[addrs[0]:], data)
	}
	c.busy = false
	return true
}

func (f *fake) Cancel(ci int) {
	c := f.cores[ci]
	if c.busy {
		switch f.bug {
		case "cancel-wedges":
			for _, o := range f.cores {
				o.wedged = true
			}
		case "cancel-panics":
			panic("invalid state: fake")
		}
	}
	c.busy = false
}

func (f *fake) Export() int {
	for _, c := range f.cores {
		for _, l := range c.lines {
			if l.state == stateMod {
				f.writeBack(l)
			}
		}
	}
	return 0
}

func (f *fake) Snapshot() comp.VerifSnap {
	s := comp.VerifSnap{LineSize: l1LineSize, Memory: f.mem}
	for ci, c := range f.cores {
		vc := comp.VerifCore{}
		for _, l := range c.lines {
			vc.Lines = append(vc.Lines, comp.VerifLine{Base: l.base, Data: l.data})
			s.States = append(s.States, comp.VerifState{Core: ci, Addr: l.base, State: l.state})
		}
		vc.Resident = vc.Lines
		s.Cores = append(s.Cores, vc)
	}
	return s
}
