//go:build verif

package rig

import (
	"fmt"

	"github.com/teivah/majorana/proc/comp"
	mvp70 "github.com/teivah/majorana/proc/mvp7-0"
	mvp71 "github.com/teivah/majorana/proc/mvp7-1"
	mvp80 "github.com/teivah/majorana/proc/mvp8-0"
)

// machine is what the rig drives: the controllers + directory + memory of one
// variant (or, in the tests, a deliberately broken fake).
type machine interface {
	Cores() int
	Memory() []int8
	Snoop(core int)
	Read(core, cycle int, addrs []int32) ([]int8, bool)
	Write(core, cycle int, addrs []int32, data []int8) bool
	Cancel(core int)
	Idle(core int) bool
	Export() int
	Snapshot() comp.VerifSnap
}

// The three real variants, in the order run indices rotate through them.
var variants = []string{"mvp7-0", "mvp7-1", "mvp8-0"}

// factories maps a variant name to its constructor (tests register fakes).
var factories = map[string]func(memoryBytes, cores int) machine{
	"mvp7-0": func(mem, cores int) machine { return rig70{mvp70.NewVerifRig(mem, cores)} },
	"mvp7-1": func(mem, cores int) machine { return rig71{mvp71.NewVerifRig(mem, cores)} },
	"mvp8-0": func(mem, cores int) machine { return rig80{mvp80.NewVerifRig(mem, cores)} },
}

func newMachine(variant string, mem, cores int) (machine, error) {
	f, ok := factories[variant]
	if !ok {
		return nil, fmt.Errorf("unknown rig variant %q", variant)
	}
	return f(mem, cores), nil
}

type rig70 struct{ *mvp70.VerifRig }

func (r rig70) Memory() []int8 { return r.Context().Memory }

type rig71 struct{ *mvp71.VerifRig }

func (r rig71) Memory() []int8 { return r.Context().Memory }

type rig80 struct{ *mvp80.VerifRig }

func (r rig80) Memory() []int8 { return r.Context().Memory }

const (
	l1LineSize  = 64
	l1Lines     = 16
	l3LineSize  = 128 // mvp8 only
	l3Lines     = 32  // mvp8 only
	memLatency  = 309
	stateInv    = 0
	stateShared = 1
	stateMod    = 2
)
