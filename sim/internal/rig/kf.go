//go:build verif

package rig

// knownFinding returns the id of the known finding whose trigger the failing
// evaluation satisfies, or "". Triggers look only at the schedule and at the
// protocol situation at the moment of the cancellation (cancelFacts, taken
// from the snapshot right before Cancel), never at what went wrong afterwards.
func knownFinding(sc *Scenario, out *outcome, base *outcome) string {
	return ""
}
