//go:build verif

package rig

// knownFinding returns the id of the known finding whose trigger the failing
// evaluation satisfies, or "". Triggers look only at the schedule and at the
// protocol situation at the moment of the cancellation (cancelFacts, taken
// from the snapshot right before Cancel), never at what went wrong afterwards.
// A failure without any cancellation is never inside a trigger.
func knownFinding(sc *Scenario, out *outcome, base *outcome) string {
	cf := out.cf
	if sc.Cancel == nil || !cf.fired || !cf.busy {
		// no cancellation, or it hit a controller that held no lock yet
		return ""
	}
	switch {
	case cf.op == "r" && cf.state == stateMod:
		// KF-R2: a read of a line the core holds Modified takes the WRITE lock
		// (msi.rLock case modified) but the controller files it under its read
		// locks, so flush() releases it with RUnlock.
		return "KF-R2"
	case cf.state == stateInv && cf.resident:
		// KF-R1: cancelled between the arrival of the fetched line in L1 and
		// the completion that sets its protocol state.
		return "KF-R1"
	case cf.cmdLine > 0:
		// KF-R3: cancelled while a snoop command for the request's line is
		// outstanding: the lock is released, the command stays.
		return "KF-R3"
	case sc.Variant == "mvp8-0" && cf.op == "r" && cf.state == stateInv && !cf.resident && base != nil && sc.Cancel.Req < len(base.main):
		// KF-R4 (mvp8 only): a read that misses L3 takes the L3 line's fill
		// mutex (msi.getL3Lock TryLock) L3Access=50 steps before it pushes the
		// line into L3 and L1, and releases it in that step. In the
		// no-cancellation run of the same schedule (identical up to here) the
		// line arrived in L1 after residentAt steps, at least 359 steps after the
		// lock (so it came from memory, not from L3): the mutex is held during
		// the 50 steps before the arrival.
		t := base.main[sc.Cancel.Req]
		if t.residentAt >= 0 && t.busyAt >= 0 && t.residentAt-t.busyAt >= 359 &&
			sc.Cancel.Offset >= t.residentAt-50 && sc.Cancel.Offset <= t.residentAt-1 {
			return "KF-R4"
		}
	}
	return ""
}
