//go:build verif

package rig

import (
	"encoding/json"
	"os"
	"path/filepath"
	"reflect"
	"strings"
	"testing"

	"verifsim/internal/api"
	"verifsim/internal/findings"
)

func resetLimits() {
	minimisedPerClass = map[string]int{}
	taggedPerFinding = map[string]int{}
}

func testFindings(t *testing.T) *findings.Set {
	t.Helper()
	p := filepath.Join(t.TempDir(), "KNOWN_FINDINGS.txt")
	var b strings.Builder
	for _, id := range []string{"KF-R1", "KF-R2", "KF-R3", "KF-R4"} {
		b.WriteString("finding: property=C06 id=" + id + " replay=findings/" + id + ".replay.json test\n")
	}
	if err := os.WriteFile(p, []byte(b.String()), 0o644); err != nil {
		t.Fatal(err)
	}
	kf, err := findings.Load(p)
	if err != nil {
		t.Fatal(err)
	}
	return kf
}

func word(a int32) []int32 { return []int32{a, a + 1, a + 2, a + 3} }

func TestDeterminism(t *testing.T) {
	kf := testFindings(t)
	run := func() *api.Result {
		resetLimits()
		res := api.NewResult()
		for idx := 0; idx < 9; idx++ {
			RunIndex(7, idx, "quick", res, kf)
		}
		return res
	}
	a, b := run(), run()
	if a.Evaluations == 0 || len(a.Distinct) == 0 {
		t.Fatalf("nothing ran: %+v", a)
	}
	if a.Evaluations != b.Evaluations || a.SimCycles != b.SimCycles || a.Inconclusive != b.Inconclusive {
		t.Fatalf("evaluations/cycles differ: %d/%d vs %d/%d", a.Evaluations, a.SimCycles, b.Evaluations, b.SimCycles)
	}
	if !reflect.DeepEqual(a.Counters, b.Counters) {
		t.Fatalf("counters differ:\n%v\n%v", a.Counters, b.Counters)
	}
	if !reflect.DeepEqual(a.Distinct, b.Distinct) {
		t.Fatalf("distinct coherence vectors differ: %d vs %d", len(a.Distinct), len(b.Distinct))
	}
	ja, _ := json.Marshal(a.Violations)
	jb, _ := json.Marshal(b.Violations)
	if string(ja) != string(jb) {
		t.Fatalf("violations differ")
	}
	js, _ := json.Marshal(a.Samples)
	jt, _ := json.Marshal(b.Samples)
	if string(js) != string(jt) {
		t.Fatalf("samples differ")
	}
	// another seed gives another exploration
	resetLimits()
	c := api.NewResult()
	RunIndex(8, 0, "quick", c, kf)
	d := api.NewResult()
	resetLimits()
	RunIndex(7, 0, "quick", d, kf)
	if c.SimCycles == d.SimCycles && reflect.DeepEqual(c.Counters, d.Counters) {
		t.Fatalf("seed has no influence")
	}
}

// TestReplayRoundTrip: every violation RunIndex emits with a payload replays to the same class,
// and a payload of a passing execution replays to nil.
func TestReplayRoundTrip(t *testing.T) {
	resetLimits()
	res := api.NewResult()
	for idx := 0; idx < 6; idx++ {
		RunIndex(3, idx, "quick", res, nil) // no known findings: everything is reported with a payload
	}
	if len(res.Violations) == 0 {
		t.Skip("the tree shows no rig violation any more; nothing to round-trip")
	}
	classes := map[string]bool{}
	for _, v := range res.Violations {
		if v.KnownFinding != "" || len(v.Replay) == 0 {
			t.Fatalf("untagged violation expected, got %+v", v)
		}
		got, err := Replay(v.Replay)
		if err != nil {
			t.Fatal(err)
		}
		if got == nil || got.Class != v.Class {
			t.Fatalf("replay of %s gave %+v", v.Class, got)
		}
		classes[v.Class] = true
		// and once more: replays are repeatable
		again, _ := Replay(v.Replay)
		if again == nil || again.Class != got.Class || again.Detail != got.Detail {
			t.Fatalf("second replay differs: %+v vs %+v", again, got)
		}
	}
	t.Logf("round-tripped %d violations in %d classes", len(res.Violations), len(classes))

	ok := &Scenario{Kind: "rig", Variant: "mvp7-0", Cores: 2, MemoryBytes: 256,
		Requests: []Request{{Core: 0, Op: "w", Addrs: word(64), Data: []int8{1, 2, 3, 4}}, {Core: 1, Issue: 2, Op: "r", Addrs: word(64)}}}
	v, err := Replay(ok.payload())
	if err != nil || v != nil {
		t.Fatalf("passing scenario: %+v %v", v, err)
	}
	if _, err := Replay(json.RawMessage(`{"kind":"rig","variant":"nope","cores":1,"memory_bytes":64,"requests":[]}`)); err == nil {
		t.Fatalf("unknown variant accepted")
	}
	if _, err := Replay(json.RawMessage(`{"kind":"rig","variant":"mvp7-0","cores":1,"memory_bytes":64,"requests":[{"core":0,"op":"r","addrs":[62,63,64,65]}]}`)); err == nil {
		t.Fatalf("misaligned request accepted")
	}
}

// TestShrunkPayloadIsSmall: the minimiser reduces the first tree violation to a handful of requests.
func TestShrunkPayloadIsSmall(t *testing.T) {
	resetLimits()
	res := api.NewResult()
	RunIndex(3, 0, "quick", res, nil)
	if len(res.Violations) == 0 {
		t.Skip("no violation on this tree")
	}
	var sc Scenario
	if err := json.Unmarshal(res.Violations[0].Replay, &sc); err != nil {
		t.Fatal(err)
	}
	if len(sc.Requests) > 4 || len(sc.Prefill) > 0 {
		t.Fatalf("not minimised: %d requests, %d prefill", len(sc.Requests), len(sc.Prefill))
	}
}

func fakeScenario(variant string, reqs []Request, cancel *Cancellation) *Scenario {
	sc := &Scenario{Kind: "rig", Variant: variant, Cores: 2, MemoryBytes: 4096, Requests: reqs, Cancel: cancel}
	sc.Init = []MemSeg{initSeg(1, 64, l1LineSize)}
	return sc
}

// TestSensitivity: every deliberate bug of the fake machine is caught, with the expected class.
func TestSensitivity(t *testing.T) {
	w := func(core, issue int, a int32, v int8) Request {
		return Request{Core: core, Issue: issue, Op: "w", Addrs: word(a), Data: []int8{v, v + 1, v + 2, v + 3}}
	}
	r := func(core, issue int, a int32) Request {
		return Request{Core: core, Issue: issue, Op: "r", Addrs: word(a)}
	}
	cases := []struct {
		bug    string
		reqs   []Request
		cancel *Cancellation
		want   string
	}{
		{"ok", []Request{w(0, 0, 64, 10), w(1, 1, 64, 20), r(0, 30, 64), r(1, 30, 68)}, nil, ""},
		{"ok", []Request{w(0, 0, 64, 10), w(1, 1, 64, 20), r(0, 30, 64)}, &Cancellation{Req: 1, Offset: 3}, ""},
		{"two-modified", []Request{w(0, 0, 64, 10), w(1, 20, 64, 20)}, nil, "invariant:I1"},
		{"stale-shared", []Request{r(1, 0, 64), w(0, 20, 64, 10)}, nil, "invariant:I2"},
		{"lost-write", []Request{w(0, 0, 64, 10), r(1, 20, 68)}, nil, "final-memory"},
		{"torn-read", []Request{r(0, 10, 64), w(1, 8, 64, 10)}, nil, "non-linearizable"},
		{"cancel-wedges", []Request{w(0, 0, 64, 10), r(1, 2, 64)}, &Cancellation{Req: 0, Offset: 2}, "rig-hang"},
		{"cancel-panics", []Request{w(0, 0, 64, 10), r(1, 2, 64)}, &Cancellation{Req: 0, Offset: 2}, "panic:invalid state"},
		{"cancelled-write-lands", []Request{w(0, 0, 64, 10)}, &Cancellation{Req: 0, Offset: 6}, "final-memory"},
		{"cancelled-write-lands", []Request{w(0, 0, 64, 10)}, nil, ""},
	}
	for _, c := range cases {
		sc := fakeScenario("fake-"+c.bug, c.reqs, c.cancel)
		if err := sc.validate(); err != nil {
			t.Fatal(err)
		}
		out := evaluate(sc, evalOpt{})
		if out.class != c.want {
			t.Errorf("fake-%s: class %q (%s), want %q", c.bug, out.class, out.detail, c.want)
			continue
		}
		if c.want != "" {
			v, err := Replay(sc.payload())
			if err != nil || v == nil || v.Class != c.want+"@rig-fake-"+c.bug {
				t.Errorf("fake-%s: replay gave %+v %v", c.bug, v, err)
			}
		}
	}
}

// TestSensitivityGenerated: the seeded schedules (not hand-made ones) find each
// bug within a few dozen run indices, and report nothing on the correct fake.
func TestSensitivityGenerated(t *testing.T) {
	want := map[string]string{
		"ok":                    "",
		"two-modified":          "invariant:I1",
		"stale-shared":          "invariant:I2",
		"lost-write":            "final-memory|non-linearizable",
		"torn-read":             "non-linearizable",
		"cancel-wedges":         "rig-hang",
		"cancel-panics":         "panic:invalid state",
		"cancelled-write-lands": "final-memory",
	}
	for bug, classes := range want {
		resetLimits()
		res := api.NewResult()
		for idx := 0; idx < 40; idx++ {
			sc := generate(11, idx)
			sc.Variant = "fake-" + bug
			runScenario(sc, 11, idx, "quick", res, nil)
			if classes != "" && len(res.Violations) > 0 {
				break
			}
		}
		if classes == "" {
			if len(res.Violations) != 0 {
				t.Errorf("correct fake: %d violations, first %s: %s", len(res.Violations), res.Violations[0].Class, res.Violations[0].Detail)
			}
			if res.Counters["rig:evaluations-with-cancellation"] < 1000 {
				t.Errorf("correct fake: only %d cancellation evaluations", res.Counters["rig:evaluations-with-cancellation"])
			}
			continue
		}
		if len(res.Violations) == 0 {
			t.Errorf("fake-%s: not found by 40 generated schedules", bug)
			continue
		}
		got := strings.TrimSuffix(res.Violations[0].Class, "@rig-fake-"+bug)
		found := false
		for _, c := range strings.Split(classes, "|") {
			found = found || c == got
		}
		if !found {
			t.Errorf("fake-%s: class %q (%s), want %s", bug, got, res.Violations[0].Detail, classes)
		}
		if v, err := Replay(res.Violations[0].Replay); err != nil || v == nil || v.Class != res.Violations[0].Class {
			t.Errorf("fake-%s: replay of the minimised payload gave %+v %v", bug, v, err)
		}
	}
}

type canonical struct {
	id, class, what string
	sc              *Scenario
}

// canonicalFindings are the minimal schedules of the proposed known findings.
func canonicalFindings() []canonical {
	seg := func(a int32) MemSeg { return initSeg(5, a, 8) }
	return []canonical{
		{"KF-R1", "invariant:I3", "a fetch cancelled after the line arrived in L1 leaves it resident with state Invalid",
			&Scenario{Kind: "rig", Variant: "mvp7-0", Cores: 1, MemoryBytes: 256, Init: []MemSeg{seg(192)},
				Requests: []Request{{Core: 0, Op: "r", Addrs: word(192)}}, Cancel: &Cancellation{Req: 0, Offset: 310}}},
		{"KF-R2", "invariant:I5", "a cancelled read of a Modified line releases its write lock with RUnlock",
			&Scenario{Kind: "rig", Variant: "mvp7-0", Cores: 1, MemoryBytes: 256, Init: []MemSeg{seg(64)},
				Requests: []Request{{Core: 0, Op: "w", Addrs: word(64), Data: []int8{24, 25, 26, 27}}, {Core: 0, Issue: 1, Op: "r", Addrs: []int32{70, 71}}},
				Cancel:   &Cancellation{Req: 1, Offset: 1}}},
		{"KF-R3", "panic:cache line doesn't exist", "a cancelled request releases the line lock while its snoop command stays outstanding",
			&Scenario{Kind: "rig", Variant: "mvp7-0", Cores: 2, MemoryBytes: 256, Init: []MemSeg{seg(192)},
				Requests: []Request{
					{Core: 1, Op: "w", Addrs: word(192), Data: []int8{8, 9, 10, 11}},
					{Core: 0, Issue: 400, Op: "w", Addrs: word(196), Data: []int8{12, 13, 14, 15}},
					{Core: 1, Issue: 708, Op: "w", Addrs: word(192), Data: []int8{16, 17, 18, 19}}},
				Cancel: &Cancellation{Req: 1, Offset: 5}}},
		{"KF-R4", "rig-hang", "a read cancelled while it holds the L3 fill mutex leaks it",
			&Scenario{Kind: "rig", Variant: "mvp8-0", Cores: 1, MemoryBytes: 128, Init: []MemSeg{seg(64)},
				Requests: []Request{{Core: 0, Op: "r", Addrs: word(68)}, {Core: 0, Op: "w", Addrs: word(64), Data: []int8{12, 13, 14, 15}}},
				Cancel:   &Cancellation{Req: 0, Offset: 380}}},
	}
}

// TestKnownFindingTriggers: the minimal schedules of the proposed known
// findings fail on this tree, inside exactly their trigger; a failure without
// cancellation is never inside a trigger. With RIG_PROPOSE=<dir> the replay
// files <dir>/findings/KF-Rn.replay.json are (re)written.
func TestKnownFindingTriggers(t *testing.T) {
	for _, c := range canonicalFindings() {
		if err := c.sc.validate(); err != nil {
			t.Fatal(err)
		}
		nc := c.sc.clone()
		nc.Cancel = nil
		base := evaluate(nc, evalOpt{keepHash: true})
		if base.class != "" {
			t.Errorf("%s: fails without the cancellation: %s %s", c.id, base.class, base.detail)
			continue
		}
		out := evaluate(c.sc, evalOpt{baseline: base})
		if out.class == "" {
			t.Logf("%s no longer reproduces on this tree", c.id)
			continue
		}
		if out.class != c.class {
			t.Errorf("%s: class %s (%s), want %s", c.id, out.class, out.detail, c.class)
		}
		if id := knownFinding(c.sc, out, base); id != c.id {
			t.Errorf("%s: trigger says %q", c.id, id)
		}
		if id := knownFinding(nc, out, base); id != "" {
			t.Errorf("%s: a schedule without cancellation is inside trigger %q", c.id, id)
		}
		full := evaluate(c.sc, evalOpt{})
		if full.class != out.class || full.detail != out.detail {
			t.Errorf("%s: checking from the first cycle gives %s (%s), from the cancellation %s (%s)", c.id, full.class, full.detail, out.class, out.detail)
		}
		if dir := os.Getenv("RIG_PROPOSE"); dir != "" {
			rf := map[string]any{"property": "C06", "class": out.class + "@rig-" + c.sc.Variant, "detail": c.what + ": " + out.detail, "seed": 0, "run_index": 0, "replay": c.sc}
			data, _ := json.MarshalIndent(rf, "", " ")
			os.MkdirAll(dir+"/findings", 0o755)
			if err := os.WriteFile(dir+"/findings/"+c.id+".replay.json", data, 0o644); err != nil {
				t.Fatal(err)
			}
		}
	}
}

// TestCadence: one request per core at a time, the next one starts the cycle
// after the previous one completed, and history timestamps follow core order.
func TestCadence(t *testing.T) {
	sc := fakeScenario("fake-ok", []Request{
		{Core: 0, Op: "r", Addrs: word(64)}, {Core: 0, Op: "r", Addrs: word(68)}, {Core: 1, Op: "r", Addrs: word(64)},
	}, nil)
	out := evaluate(sc, evalOpt{})
	if out.class != "" {
		t.Fatal(out.class, out.detail)
	}
	a, b, c := out.main[0], out.main[1], out.main[2]
	if a.start != 1 || c.start != 1 || b.start != a.end+1 {
		t.Fatalf("starts %d %d %d, first ends %d", a.start, b.start, c.start, a.end)
	}
	if a.steps != fakeLatency+1 || a.end != fakeLatency+1 {
		t.Fatalf("lifetime %d steps, end %d", a.steps, a.end)
	}
	if !(a.call < c.call && a.ret < c.ret && a.ret < b.call) {
		t.Fatalf("timestamps: %+v %+v %+v", a, b, c)
	}
}
