//go:build verif

package rig

import (
	"fmt"
	"runtime"
	"sort"
	"strings"

	"github.com/teivah/majorana/proc/comp"

	"verifsim/internal/api"
	"verifsim/internal/coh"
)

// reqTrace is what happened to one request in one evaluation.
type reqTrace struct {
	started   bool
	start     int // absolute cycle of the first slot
	steps     int // steps executed
	done      bool
	end       int // absolute cycle of completion
	cancelled bool
	call, ret int64
	got       []int8
	// baseline timeline, in steps already executed when first observed (-1: never)
	busyAt     int // controller mid-request (its line lock is held)
	residentAt int // line resident in the core's L1
	cmdAt      int // a directory command is outstanding while the request holds its lock
}

// cancelFacts is the protocol situation at the moment of the cancellation,
// taken from a snapshot made right before Cancel(core).
type cancelFacts struct {
	fired     bool
	cycle     int
	op        string
	steps     int
	busy      bool // the controller was mid-request: it holds the lock of its line
	semRead   int  // lock counters of the request's line
	semWrite  int
	state     int32 // the core's protocol state for the line
	resident  bool  // the line is in the core's L1 (all lines, victims included)
	cmdLine   int   // outstanding commands for the request's line (any core)
	cmdSelf   int   // outstanding commands addressed to the cancelling core (its capacity victims)
	cmdOthers int   // outstanding commands addressed to other cores
	overfull  bool  // the core's L1 holds more than its capacity (victim not yet removed)
}

type outcome struct {
	class  string // "" = all checks passed
	detail string
	cycles int
	t0     int // first cycle of the main phase
	main   []reqTrace
	pre    []reqTrace
	cf     cancelFacts
	// structure hash per checked cycle of the baseline (index = absolute cycle)
	hashes       []uint64
	inconclusive bool
	prefixDiffer bool
}

type evalOpt struct {
	res *api.Result // counters / distinct vectors go here (nil: none)
	// baseline: when set, this is a cancellation evaluation whose prefix (up to
	// the cancel cycle) repeats the baseline: the per-cycle checks start at the
	// cancel cycle, after the state hash there was found equal to the baseline's.
	baseline *outcome
	keepHash bool
}

func budgetOf(n int) int { return 20 * memLatency * (n + 20) }

const (
	stagnantDense = 2000 // cycles without any visible change before sampling snapshots sparsely
	sparseStep    = 64
)

type engine struct {
	sc   *Scenario
	m    machine
	n    int
	c    int
	cur  []int
	q    [][]int
	opt  evalOpt
	out  *outcome
	tr   []reqTrace
	reqs []Request

	checking  bool
	checkFrom int // absolute cycle from which a cancellation evaluation is checked
	verify    bool
	prevHash  uint64
	havePrev  bool
	prevCmds  map[cmdKey]bool
	prevOver  []bool
	stagnant  int
	event     bool
	lastSnap  comp.VerifSnap
	lastValid bool
}

type cmdKey struct {
	core int
	addr int32
	req  int32
}

// panicInfo is a recovered controller panic.
type panicInfo struct {
	msg, loc string
}

func catch(f func()) (p *panicInfo) {
	defer func() {
		if r := recover(); r != nil {
			p = &panicInfo{msg: fmt.Sprint(r), loc: panicLoc()}
		}
	}()
	f()
	return nil
}

func panicLoc() string {
	pcs := make([]uintptr, 40)
	n := runtime.Callers(3, pcs)
	fr := runtime.CallersFrames(pcs[:n])
	var parts []string
	past := false
	for {
		f, more := fr.Next()
		if strings.HasPrefix(f.Function, "runtime.gopanic") || strings.HasPrefix(f.Function, "runtime.panic") || strings.HasPrefix(f.Function, "runtime.goPanic") {
			past = true
		} else if past && !strings.HasPrefix(f.Function, "runtime.") {
			if strings.Contains(f.Function, "internal/rig.") {
				break
			}
			file := f.File
			if i := strings.Index(file, "/proc/"); i >= 0 {
				file = file[i+1:]
			}
			parts = append(parts, fmt.Sprintf("%s:%d", file, f.Line))
			if len(parts) >= 3 {
				break
			}
		}
		if !more {
			break
		}
	}
	return strings.Join(parts, " < ")
}

func panicClass(msg string) string {
	if msg == "read is negative" || msg == "write is negative" {
		return "invariant:I5"
	}
	s := msg
	if strings.HasPrefix(s, "runtime error: ") {
		var b strings.Builder
		for _, r := range s {
			if r >= '0' && r <= '9' || r == '[' || r == ']' {
				continue
			}
			b.WriteRune(r)
		}
		s = b.String()
	} else if i := strings.Index(s, ":"); i > 0 {
		s = s[:i]
	}
	w := strings.Fields(s)
	if len(w) > 6 {
		w = w[:6]
	}
	return "panic:" + strings.Join(w, " ")
}

func (e *engine) ts(core, slot int) int64 {
	return int64(e.c)*int64(2*e.n) + int64(2*core+slot)
}

func mixh(z uint64) uint64 {
	z += 0x9e3779b97f4a7c15
	z = (z ^ (z >> 30)) * 0xbf58476d1ce4e5b9
	z = (z ^ (z >> 27)) * 0x94d049bb133111eb
	return z ^ (z >> 31)
}

// structHash covers everything coh.Check reads except the data bytes: the
// coherence vector plus which lines are resident where (L1 and L3).
func structHash(s *comp.VerifSnap) (vec, h uint64) {
	vec = coh.Vector(s)
	h = vec
	for i, c := range s.Cores {
		for _, l := range c.Lines {
			h += mixh(5<<60 | uint64(i)<<40 | uint64(uint32(l.Base)))
		}
		h += mixh(6<<60 | uint64(i)<<40 | uint64(len(c.Resident)))
	}
	for _, l := range s.L3 {
		h += mixh(7<<60 | uint64(uint32(l.Base)))
	}
	return vec, h
}

func semOf(s *comp.VerifSnap, line int32) (int, int) {
	for _, m := range s.Sems {
		if m.Addr == line {
			return m.Read, m.Write
		}
	}
	return 0, 0
}

func stateOf(s *comp.VerifSnap, core int, line int32) int32 {
	for _, st := range s.States {
		if st.Core == core && st.Addr == line {
			return st.State
		}
	}
	return 0
}

func residentIn(s *comp.VerifSnap, core int, line int32) bool {
	for _, l := range s.Cores[core].Lines {
		if l.Base == line {
			return true
		}
	}
	return false
}

func (e *engine) count(name string, n int64) {
	if e.opt.res != nil {
		e.opt.res.Count(name, n)
	}
}

// factsAt fills the cancellation facts from a snapshot taken right before Cancel.
func (e *engine) factsAt(i int) {
	s := e.m.Snapshot()
	rq := e.reqs[i]
	line := lineOf(rq.Addrs[0])
	cf := &e.out.cf
	cf.fired, cf.cycle, cf.op, cf.steps = true, e.c, rq.Op, e.tr[i].steps
	cf.busy = s.Cores[rq.Core].ReadBusy || s.Cores[rq.Core].WriteBusy
	cf.semRead, cf.semWrite = semOf(&s, line)
	cf.state = stateOf(&s, rq.Core, line)
	cf.resident = residentIn(&s, rq.Core, line)
	cf.overfull = len(s.Cores[rq.Core].Lines) > len(s.Cores[rq.Core].Resident)
	for _, c := range s.Commands {
		if c.Done {
			continue
		}
		if c.Addr == line || (s.L3LineSize > 0 && c.Request >= 3 && c.Addr == line-line%s.L3LineSize) {
			cf.cmdLine++
		}
		if c.Core == rq.Core {
			cf.cmdSelf++
		} else {
			cf.cmdOthers++
		}
	}
}

// tick runs one cycle of the current phase: snoop for every core, then one
// step (or the cancellation) of every core's pending request, in core order.
func (e *engine) tick(base int, cancel *Cancellation) {
	e.c++
	e.event = false
	for core := 0; core < e.n; core++ {
		e.m.Snoop(core)
	}
	for core := 0; core < e.n; core++ {
		if e.cur[core] < 0 && len(e.q[core]) > 0 {
			i := e.q[core][0]
			if e.c-base >= e.reqs[i].Issue {
				e.q[core] = e.q[core][1:]
				e.cur[core] = i
				e.tr[i].started, e.tr[i].start, e.tr[i].call = true, e.c, e.ts(core, 0)
				e.event = true
			}
		}
		i := e.cur[core]
		if i < 0 {
			continue
		}
		rq := &e.reqs[i]
		t := &e.tr[i]
		if cancel != nil && cancel.Req == i && t.steps == cancel.Offset {
			e.factsAt(i)
			e.m.Cancel(core)
			t.cancelled = true
			e.cur[core] = -1
			e.event = true
			continue
		}
		t.steps++
		if rq.Op == "r" {
			data, done := e.m.Read(core, e.c, rq.Addrs)
			if done {
				t.done, t.end, t.ret = true, e.c, e.ts(core, 1)
				t.got = append([]int8(nil), data...)
				e.cur[core] = -1
				e.event = true
			}
		} else {
			if e.m.Write(core, e.c, rq.Addrs, rq.Data) {
				t.done, t.end, t.ret = true, e.c, e.ts(core, 1)
				e.cur[core] = -1
				e.event = true
			}
		}
	}
}

// observe takes the snapshot of the cycle and evaluates the invariants.
// It returns a violation class or "".
func (e *engine) observe(main bool) (string, string) {
	if !e.checking {
		return "", ""
	}
	if e.stagnant >= stagnantDense && !e.event && e.c%sparseStep != 0 {
		e.stagnant++
		return "", ""
	}
	s := e.m.Snapshot()
	vec, h := structHash(&s)
	if e.opt.res != nil {
		e.opt.res.Seen(vec)
	}
	if e.opt.keepHash {
		for len(e.out.hashes) <= e.c {
			e.out.hashes = append(e.out.hashes, 0)
		}
		e.out.hashes[e.c] = h
	}
	changed := !e.havePrev || h != e.prevHash || e.event
	// fault accounting from command / residency transitions
	if e.verify {
		// first checked cycle of a cancellation evaluation: the state must be
		// the one the (fully checked) baseline had at this cycle
		e.verify = false
		if b := e.opt.baseline; b != nil && e.c < len(b.hashes) && b.hashes[e.c] != 0 && b.hashes[e.c] != h {
			e.out.prefixDiffer = true
		}
	}
	if e.opt.res != nil {
		cmds := map[cmdKey]bool{}
		for _, c := range s.Commands {
			if !c.Done {
				cmds[cmdKey{c.Core, c.Addr, c.Request}] = true
			}
		}
		for k := range e.prevCmds {
			if !cmds[k] {
				switch k.req {
				case 1:
					e.count("fired:snoop-evict-served", 1)
				case 2:
					e.count("fired:snoop-writeback-served", 1)
				case 3:
					e.count("fired:l3-evict-served", 1)
				case 4:
					e.count("fired:l3-writeback-served", 1)
				}
			}
		}
		e.prevCmds = cmds
		for ci, c := range s.Cores {
			over := len(c.Lines) > len(c.Resident)
			if over && !e.prevOver[ci] {
				e.count("fired:capacity-eviction", 1)
			}
			e.prevOver[ci] = over
		}
	}
	// baseline timeline of the pending requests
	if main && e.opt.keepHash {
		for core := 0; core < e.n; core++ {
			i := e.cur[core]
			if i < 0 {
				continue
			}
			t := &e.tr[i]
			line := lineOf(e.reqs[i].Addrs[0])
			busy := s.Cores[core].ReadBusy || s.Cores[core].WriteBusy
			if busy && t.busyAt < 0 {
				t.busyAt = t.steps
			}
			if busy && t.residentAt < 0 && residentIn(&s, core, line) {
				t.residentAt = t.steps
			}
			if busy && t.cmdAt < 0 {
				for _, c := range s.Commands {
					if !c.Done {
						t.cmdAt = t.steps
						break
					}
				}
			}
		}
	}
	if changed {
		e.stagnant = 0
	} else {
		e.stagnant++
	}
	e.prevHash, e.havePrev = h, true
	if !changed {
		return "", "" // nothing coh.Check reads has changed since the last cycle that passed it
	}
	if v := coh.Check(&s); v != nil {
		return "invariant:" + v.Inv, fmt.Sprintf("cycle %d: %s", e.c, v.Detail)
	}
	return "", ""
}

func (e *engine) setup(reqs []Request) {
	e.reqs = reqs
	e.tr = make([]reqTrace, len(reqs))
	for i := range e.tr {
		e.tr[i].busyAt, e.tr[i].residentAt, e.tr[i].cmdAt = -1, -1, -1
	}
	e.q = make([][]int, e.n)
	e.cur = make([]int, e.n)
	for c := range e.cur {
		e.cur[c] = -1
	}
	for i, r := range reqs {
		e.q[r.Core] = append(e.q[r.Core], i)
	}
	for c := range e.q {
		q := e.q[c]
		sort.SliceStable(q, func(a, b int) bool { return reqs[q[a]].Issue < reqs[q[b]].Issue })
	}
}

func (e *engine) pendingWork() bool {
	for c := 0; c < e.n; c++ {
		if e.cur[c] >= 0 || len(e.q[c]) > 0 {
			return true
		}
	}
	return false
}

func (e *engine) allIdle() bool {
	for c := 0; c < e.n; c++ {
		if !e.m.Idle(c) {
			return false
		}
	}
	return true
}

func (e *engine) describePending() string {
	var parts []string
	for c := 0; c < e.n; c++ {
		if i := e.cur[c]; i >= 0 {
			parts = append(parts, fmt.Sprintf("core %d: request %d (%s %d) pending since cycle %d", c, i, e.reqs[i].Op, e.reqs[i].Addrs[0], e.tr[i].start))
		} else if !e.m.Idle(c) {
			parts = append(parts, fmt.Sprintf("core %d: snoop never drains", c))
		}
	}
	return strings.Join(parts, "; ")
}

// runPhase executes reqs until every request is done or cancelled and every
// controller is idle, or the deadline passes.
func (e *engine) runPhase(reqs []Request, cancel *Cancellation, main bool) (string, string) {
	e.setup(reqs)
	base := e.c + 1
	maxIssue := 0
	for _, r := range reqs {
		if r.Issue > maxIssue {
			maxIssue = r.Issue
		}
	}
	deadline := base + maxIssue + budgetOf(len(reqs))
	for e.pendingWork() || !e.allIdle() {
		if e.c >= deadline {
			return "rig-hang", fmt.Sprintf("after %d cycles (budget %d): %s", e.c-base+1, deadline-base, e.describePending())
		}
		var cls, det string
		if p := catch(func() {
			e.tick(base, cancel)
			if main && !e.checking && (e.c >= e.checkFrom || e.out.cf.fired) {
				// the prefix repeats the baseline: start checking here
				e.checking, e.verify = true, !e.out.cf.fired
			}
			cls, det = e.observe(main)
		}); p != nil {
			return panicClass(p.msg), fmt.Sprintf("cycle %d: panic %q at %s", e.c, p.msg, p.loc)
		}
		if cls != "" {
			return cls, det
		}
	}
	return "", ""
}

// evaluate runs one scenario and applies all four checks.
func evaluate(sc *Scenario, opt evalOpt) *outcome {
	out := &outcome{}
	m, err := newMachine(sc.Variant, sc.MemoryBytes, sc.Cores)
	if err != nil {
		out.class, out.detail = "rig-error", err.Error()
		return out
	}
	mem := m.Memory()
	for _, g := range sc.Init {
		copy(mem[g.Addr:], g.Bytes)
	}
	initial := append([]int8(nil), mem...)
	e := &engine{sc: sc, m: m, n: sc.Cores, opt: opt, out: out, prevOver: make([]bool, sc.Cores)}
	e.checking = true
	if b := opt.baseline; b != nil && sc.Cancel != nil && sc.Cancel.Req < len(b.main) && b.main[sc.Cancel.Req].started {
		// the cancellation happens at this absolute cycle; check from the cycle before
		e.checking = false
		e.checkFrom = b.main[sc.Cancel.Req].start + sc.Cancel.Offset - 1
	}
	finish := func(cls, det string) *outcome {
		out.class, out.detail, out.cycles = cls, det, e.c
		return out
	}
	if len(sc.Prefill) > 0 {
		cls, det := e.runPhase(sc.Prefill, nil, false)
		out.pre = e.tr
		if cls != "" {
			return finish(cls, "prefill: "+det)
		}
	}
	out.t0 = e.c + 1
	cls, det := e.runPhase(sc.Requests, sc.Cancel, true)
	out.main = e.tr
	if cls != "" {
		return finish(cls, det)
	}
	// end-of-run write-back, as CPU.Run does once every controller is empty
	if p := catch(func() { e.c += m.Export() }); p != nil {
		return finish(panicClass(p.msg), fmt.Sprintf("end-of-run write-back: panic %q at %s", p.msg, p.loc))
	}
	if cls, det := checkFinalMemory(sc, out, initial, m.Memory()); cls != "" {
		return finish(cls, det)
	}
	cls, det, unknown := checkLinearizable(sc, out, initial)
	out.inconclusive = unknown
	return finish(cls, det)
}
