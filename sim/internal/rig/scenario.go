//go:build verif

package rig

import (
	"encoding/json"
	"fmt"
	"sort"

	"verifsim/internal/rng"
)

// Request is one read or write of 1, 2 or 4 consecutive, naturally aligned bytes.
type Request struct {
	Core  int     `json:"core"`
	Issue int     `json:"issue"` // earliest cycle of the first step, relative to the start of the main phase
	Op    string  `json:"op"`    // "r" or "w"
	Addrs []int32 `json:"addrs"`
	Data  []int8  `json:"data,omitempty"`
}

// Cancellation replaces step number Offset (0-based) of request Req by Cancel(core).
type Cancellation struct {
	Req    int `json:"request"`
	Offset int `json:"offset"`
}

// MemSeg is a run of initial memory bytes (everything else is zero).
type MemSeg struct {
	Addr  int32  `json:"addr"`
	Bytes []int8 `json:"bytes"`
}

// Scenario is one evaluation: it is also the replay payload.
type Scenario struct {
	Kind        string        `json:"kind"` // "rig"
	Variant     string        `json:"variant"`
	Cores       int           `json:"cores"`
	MemoryBytes int           `json:"memory_bytes"`
	Init        []MemSeg      `json:"init_memory"`
	Prefill     []Request     `json:"prefill,omitempty"` // run back to back per core before the main phase, never cancelled
	Requests    []Request     `json:"requests"`
	Cancel      *Cancellation `json:"cancel,omitempty"`
}

func (s *Scenario) clone() *Scenario {
	c := *s
	c.Init = append([]MemSeg(nil), s.Init...)
	c.Prefill = append([]Request(nil), s.Prefill...)
	c.Requests = append([]Request(nil), s.Requests...)
	if s.Cancel != nil {
		k := *s.Cancel
		c.Cancel = &k
	}
	return &c
}

func (s *Scenario) payload() json.RawMessage {
	b, _ := json.Marshal(s)
	return b
}

func (s *Scenario) validate() error {
	if s.Kind != "rig" {
		return fmt.Errorf("payload kind %q is not rig", s.Kind)
	}
	if s.Cores < 1 || s.Cores > 8 {
		return fmt.Errorf("cores %d out of range", s.Cores)
	}
	if s.MemoryBytes < l1LineSize || s.MemoryBytes > 1<<22 {
		return fmt.Errorf("memory size %d out of range", s.MemoryBytes)
	}
	chk := func(rs []Request, what string) error {
		for i, r := range rs {
			if r.Core < 0 || r.Core >= s.Cores {
				return fmt.Errorf("%s %d: core %d", what, i, r.Core)
			}
			if r.Op != "r" && r.Op != "w" {
				return fmt.Errorf("%s %d: op %q", what, i, r.Op)
			}
			n := len(r.Addrs)
			if n != 1 && n != 2 && n != 4 {
				return fmt.Errorf("%s %d: %d addresses", what, i, n)
			}
			for j, a := range r.Addrs {
				if a < 0 || int(a) >= s.MemoryBytes || a != r.Addrs[0]+int32(j) {
					return fmt.Errorf("%s %d: bad address list", what, i)
				}
			}
			if r.Addrs[0]%int32(n) != 0 {
				return fmt.Errorf("%s %d: not naturally aligned", what, i)
			}
			if r.Op == "w" && len(r.Data) != n {
				return fmt.Errorf("%s %d: data length", what, i)
			}
			if r.Issue < 0 {
				return fmt.Errorf("%s %d: negative issue cycle", what, i)
			}
		}
		return nil
	}
	if err := chk(s.Prefill, "prefill"); err != nil {
		return err
	}
	if err := chk(s.Requests, "request"); err != nil {
		return err
	}
	for _, g := range s.Init {
		if g.Addr < 0 || int(g.Addr)+len(g.Bytes) > s.MemoryBytes {
			return fmt.Errorf("init segment at %d out of range", g.Addr)
		}
	}
	if c := s.Cancel; c != nil {
		if c.Req < 0 || c.Req >= len(s.Requests) || c.Offset < 0 {
			return fmt.Errorf("cancellation out of range")
		}
	}
	return nil
}

func lineOf(a int32) int32 { return a - a%l1LineSize }

// initByte is the seeded initial content of a byte: always negative, so it can
// never be confused with a written value (those are positive).
func initByte(salt uint64, a int32) int8 {
	return int8(-1 - int(rng.Derive(salt, uint64(a))%120))
}

func initSeg(salt uint64, base int32, n int) MemSeg {
	g := MemSeg{Addr: base, Bytes: make([]int8, n)}
	for i := range g.Bytes {
		g.Bytes[i] = initByte(salt, base+int32(i))
	}
	return g
}

const memoryBytes = 8192

// generate draws the schedule of run index idx.
func generate(seed uint64, idx int) *Scenario {
	r := rng.New(rng.Derive(seed, uint64(idx)))
	salt := r.U64()
	sc := &Scenario{Kind: "rig", Variant: variants[idx%len(variants)], MemoryBytes: memoryBytes}
	sc.Cores = r.Range(2, 3)
	isL3 := sc.Variant == "mvp8-0"

	// target lines: 1-3 lines in the first 2 KB
	nLines := r.Pick([]int{3, 4, 2}) + 1
	var lines []int32
	used := map[int32]bool{}
	if nLines >= 2 && (isL3 || r.Chance(1, 3)) {
		// two halves of one 128-byte (L3) line
		b := int32(r.Intn(16)) * l3LineSize
		lines = append(lines, b, b+l1LineSize)
		used[b], used[b+l1LineSize] = true, true
	}
	for len(lines) < nLines {
		b := int32(r.Intn(32)) * l1LineSize
		if !used[b] {
			used[b] = true
			lines = append(lines, b)
		}
	}
	for _, b := range lines {
		sc.Init = append(sc.Init, initSeg(salt, b, l1LineSize))
	}

	// prefill: none / read / write (victims Shared / Modified) / mvp8: fill L3
	// Prefill lines live above 2 KB; core c owns 16 lines from 2048+c*2048, or
	// all cores use core 0's region (victims Shared by several cores).
	mode := r.Pick([]int{5, 3, 3, 2})
	if mode == 3 && !isL3 {
		mode = 1 + r.Intn(2)
	}
	if mode != 0 {
		sharedRegion := r.Chance(1, 4)
		for c := 0; c < sc.Cores; c++ {
			if !r.Chance(2, 3) && c > 0 {
				continue
			}
			region := int32(2048 + c*2048)
			if sharedRegion {
				region = 2048
			}
			n, stride := l1Lines, int32(l1LineSize)
			if mode == 3 {
				if c > 0 {
					continue
				}
				n, stride, region = l3Lines, l3LineSize, 4096 // 4 KB of L3 lines: fills L3 exactly
			}
			for k := 0; k < n; k++ {
				a := region + int32(k)*stride
				rq := Request{Core: c, Op: "r", Addrs: []int32{a, a + 1, a + 2, a + 3}}
				wr := mode == 2 || (mode == 3 && r.Chance(1, 2))
				if mode == 2 && sharedRegion && c > 0 {
					wr = false
				}
				if wr {
					rq.Op = "w"
					v := int8(c + 1)
					rq.Data = []int8{v, v, v, v}
				}
				sc.Prefill = append(sc.Prefill, rq)
			}
		}
		seen := map[int32]bool{}
		for _, p := range sc.Prefill {
			b := lineOf(p.Addrs[0])
			if !seen[b] {
				seen[b] = true
				sc.Init = append(sc.Init, initSeg(salt, b, l1LineSize))
			}
		}
	}

	// requests
	n := r.Pick([]int{1, 2, 3, 3, 3, 3, 3, 3, 3, 3, 3, 4}) + 1
	spread := []int{0, 0, 3, 12, 60, 330, 700, 1500}[r.Intn(8)]
	wPermille := []int{300, 500, 500, 700}[r.Intn(4)]
	words := []int32{0, 4, 60}
	for i := 0; i < n; i++ {
		rq := Request{Core: r.Intn(sc.Cores), Issue: r.Intn(spread + 1)}
		line := lines[r.Intn(len(lines))]
		size := []int{4, 4, 4, 2, 1}[r.Intn(5)]
		w := words[r.Pick([]int{5, 3, 1})]
		off := int32(r.Intn(4/size) * size)
		a := line + w + off
		for k := 0; k < size; k++ {
			rq.Addrs = append(rq.Addrs, a+int32(k))
		}
		if r.Intn(1000) < wPermille {
			rq.Op = "w"
			for k := 0; k < size; k++ {
				rq.Data = append(rq.Data, int8(8+i*4+k)) // unique per scenario, positive
			}
		} else {
			rq.Op = "r"
		}
		sc.Requests = append(sc.Requests, rq)
	}
	sort.SliceStable(sc.Init, func(i, j int) bool { return sc.Init[i].Addr < sc.Init[j].Addr })
	return sc
}
