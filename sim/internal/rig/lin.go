//go:build verif

package rig

import (
	"fmt"
	"math"
	"sort"
	"time"

	"github.com/anishathalye/porcupine"
)

// histOp is one request of the recorded history.
type histOp struct {
	idx       int // request index; prefill requests are numbered -1-k
	core      int
	write     bool
	addrs     []int32
	data      []int8 // written / returned bytes
	call, ret int64
	pending   bool // cancelled write: may or may not take effect
}

func (o histOp) name() string {
	op := "read"
	if o.write {
		op = "write"
	}
	who := fmt.Sprintf("request %d", o.idx)
	if o.idx < 0 {
		who = fmt.Sprintf("prefill %d", -1-o.idx)
	}
	return fmt.Sprintf("%s (core %d %s %d..%d = %v)", who, o.core, op, o.addrs[0], o.addrs[len(o.addrs)-1], o.data)
}

// history collects the completed requests of both phases, plus the cancelled
// writes that had started (as pending operations).
func history(sc *Scenario, out *outcome) []histOp {
	var h []histOp
	add := func(reqs []Request, tr []reqTrace, pre bool) {
		for i, t := range tr {
			if i >= len(reqs) {
				break
			}
			rq := reqs[i]
			idx := i
			if pre {
				idx = -1 - i
			}
			switch {
			case t.done:
				o := histOp{idx: idx, core: rq.Core, write: rq.Op == "w", addrs: rq.Addrs, call: t.call, ret: t.ret}
				if o.write {
					o.data = rq.Data
				} else {
					o.data = t.got
				}
				h = append(h, o)
			case t.cancelled && t.steps > 0 && rq.Op == "w":
				h = append(h, histOp{idx: idx, core: rq.Core, write: true, addrs: rq.Addrs, data: rq.Data, call: t.call, ret: math.MaxInt64 / 4, pending: true})
			}
		}
	}
	add(sc.Prefill, out.pre, true)
	add(sc.Requests, out.main, false)
	return h
}

// checkFinalMemory is check (4): after the end-of-run write-back every byte
// holds the value of a completed write to it that no other completed write to
// that byte was issued after; bytes without a completed write keep their
// initial value. A cancelled write never reaches the step that stores its
// data (cc.go coWriteToL1 stores and completes in one step), so it must not be
// visible.
func checkFinalMemory(sc *Scenario, out *outcome, initial, final []int8) (string, string) {
	type w struct {
		v         int8
		call, ret int64
		op        histOp
	}
	byByte := map[int32][]w{}
	for _, o := range history(sc, out) {
		if !o.write || o.pending {
			continue
		}
		for k, a := range o.addrs {
			byByte[a] = append(byByte[a], w{o.data[k], o.call, o.ret, o})
		}
	}
	mask := make([]bool, len(final))
	for a := range byByte {
		mask[a] = true
	}
	for a := range final {
		if !mask[a] && final[a] != initial[a] {
			return "final-memory", fmt.Sprintf("byte %d was never written by a completed write but holds %d (initially %d)", a, final[a], initial[a])
		}
	}
	written := make([]int32, 0, len(byByte))
	for a := range byByte {
		written = append(written, a)
	}
	sort.Slice(written, func(i, j int) bool { return written[i] < written[j] })
	for _, a := range written {
		ws := byByte[a]
		ok := false
		var allowed []int8
		for i, x := range ws {
			maximal := true
			for j, y := range ws {
				if i != j && y.call > x.ret {
					maximal = false
					break
				}
			}
			if maximal {
				allowed = append(allowed, x.v)
				if final[a] == x.v {
					ok = true
				}
			}
		}
		if !ok {
			return "final-memory", fmt.Sprintf("byte %d holds %d after the end-of-run write-back; the last completed write(s) stored %v (initially %d)", a, final[a], allowed, initial[a])
		}
	}
	return "", ""
}

type linIn struct {
	write bool
	off   int
	data  []int8 // written bytes (write)
	word  int32
}

type wordState struct {
	set bool
	b   [4]int8
}

// checkLinearizable is check (3): the history against one atomic register per
// aligned 4-byte word (sub-word accesses read / update part of it).
func checkLinearizable(sc *Scenario, out *outcome, initial []int8) (class, detail string, unknown bool) {
	h := history(sc, out)
	if len(h) == 0 {
		return "", "", false
	}
	load := func(word int32) wordState {
		s := wordState{set: true}
		for k := 0; k < 4; k++ {
			if int(word)+k < len(initial) {
				s.b[k] = initial[int(word)+k]
			}
		}
		return s
	}
	model := porcupine.Model{
		Init: func() interface{} { return wordState{} },
		Partition: func(ops []porcupine.Operation) [][]porcupine.Operation {
			m := map[int32][]porcupine.Operation{}
			var keys []int32
			for _, o := range ops {
				w := o.Input.(linIn).word
				if _, ok := m[w]; !ok {
					keys = append(keys, w)
				}
				m[w] = append(m[w], o)
			}
			sort.Slice(keys, func(i, j int) bool { return keys[i] < keys[j] })
			var parts [][]porcupine.Operation
			for _, k := range keys {
				parts = append(parts, m[k])
			}
			return parts
		},
		Step: func(state, input, output interface{}) (bool, interface{}) {
			st := state.(wordState)
			in := input.(linIn)
			if !st.set {
				st = load(in.word)
			}
			if in.write {
				for k, v := range in.data {
					st.b[in.off+k] = v
				}
				return true, st
			}
			got := output.([]int8)
			for k, v := range got {
				if st.b[in.off+k] != v {
					return false, st
				}
			}
			return true, st
		},
	}
	var ops []porcupine.Operation
	for _, o := range h {
		word := o.addrs[0] &^ 3
		in := linIn{write: o.write, off: int(o.addrs[0] - word), word: word}
		var outv interface{}
		if o.write {
			in.data = o.data
		} else {
			if len(o.data) != len(o.addrs) {
				return "non-linearizable", fmt.Sprintf("%s returned %d bytes for %d addresses", o.name(), len(o.data), len(o.addrs)), false
			}
			outv = o.data
		}
		ops = append(ops, porcupine.Operation{ClientId: o.core, Input: in, Call: o.call, Output: outv, Return: o.ret})
	}
	switch porcupine.CheckOperationsTimeout(model, ops, 5*time.Second) {
	case porcupine.Ok:
		return "", "", false
	case porcupine.Unknown:
		return "", "", true
	}
	return "non-linearizable", explain(h, initial), false
}

// explain names a read whose value no linearization can produce, if a simple
// reason exists (the detail text only; the verdict is porcupine's).
func explain(h []histOp, initial []int8) string {
	for _, r := range h {
		if r.write {
			continue
		}
		for k, a := range r.addrs {
			v := r.data[k]
			src := "no write"
			found := int(a) < len(initial) && initial[a] == v
			if found {
				src = "the initial value"
			}
			for _, w := range h {
				if !w.write {
					continue
				}
				for j, wa := range w.addrs {
					if wa == a && w.data[j] == v {
						found = true
						src = w.name()
						if w.call > r.ret {
							return fmt.Sprintf("%s returned at byte %d the value of %s, which was issued after the read completed", r.name(), a, w.name())
						}
					}
				}
			}
			if !found {
				return fmt.Sprintf("%s returned %d at byte %d, a value that was never there (initially %d)", r.name(), v, a, initial[a])
			}
			// stale: some write to a completed before r was issued, and after src completed
			for _, w := range h {
				if !w.write || w.pending {
					continue
				}
				for j, wa := range w.addrs {
					if wa == a && w.data[j] != v && w.ret < r.call {
						// is the source older than w?
						srcRet := int64(-1)
						for _, s := range h {
							if s.write && !s.pending {
								for jj, sa := range s.addrs {
									if sa == a && s.data[jj] == v {
										srcRet = s.ret
									}
								}
							}
						}
						if srcRet < w.call {
							return fmt.Sprintf("%s returned at byte %d a stale value (%d, from %s) although %s had completed before the read was issued", r.name(), a, v, src, w.name())
						}
					}
				}
			}
		}
	}
	return fmt.Sprintf("no linearization of the %d operations exists", len(h))
}
