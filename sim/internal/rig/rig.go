//go:build verif

// Package rig is the controller-level part of property C06: seeded request
// schedules with enumerated cancellation points driven directly into the real
// cache controllers + MSI directory + memory (NewVerifRig of mvp7-0, mvp7-1,
// mvp8-0), checked for I1..I5 at every cycle, for completion, and for
// linearizability of the recorded history (porcupine).
package rig

import (
	"encoding/json"

	"verifsim/internal/api"
	"verifsim/internal/findings"
)

// Runs is the number of rig run indices of a tier.
func Runs(tier string) int { return 0 }

// RunIndex executes rig run idx (0-based within the rig part) and records
// evaluations, counters, distinct states, samples and violations into res.
func RunIndex(seed uint64, idx int, tier string, res *api.Result, kf *findings.Set) {}

// Replay re-executes a rig payload (JSON object with "kind":"rig").
func Replay(payload json.RawMessage) (*api.Violation, error) { return nil, nil }

// Describe returns the rule text, fault kinds and assumptions of the rig part.
func Describe() (rule string, faults, assumptions []string) { return "", nil, nil }
