//go:build verif

// Package rig is the controller-level part of property C06: seeded request
// schedules with enumerated cancellation points driven directly into the real
// cache controllers + MSI directory + memory (NewVerifRig of mvp7-0, mvp7-1,
// mvp8-0), checked for I1..I5 at every cycle, for completion, and for
// linearizability of the recorded history (porcupine).
package rig

import (
	"encoding/json"
	"fmt"
	"runtime/debug"
	"sort"

	"verifsim/internal/api"
	"verifsim/internal/findings"
	"verifsim/internal/rng"
)

// Runs is the number of rig run indices of a tier.
func Runs(tier string) int {
	if tier == "thorough" {
		return 4800 // x2 schedules, ~25x more cancellation points per schedule than quick (about an hour on 16 cores)
	}
	return 2400
}

const (
	maxEvalsPerIndex      = 3000 // thorough: bound on the enumerated cancellation points of one schedule
	quickOffsetsPerReq    = 8
	maxViolationsPerIndex = 6
	maxMinimisedPerClass  = 2
	maxTaggedPerFinding   = 2
)

// package-level (per worker process) rate limits
var (
	minimisedPerClass = map[string]int{}
	taggedPerFinding  = map[string]int{}
)

// debugFacts adds a counter per (class, cancellation situation); exploration aid.
var debugFacts = false

func factSig(cf cancelFacts) string {
	if !cf.fired {
		return "no-cancel"
	}
	return fmt.Sprintf("op=%s steps>0=%v busy=%v state=%d resident=%v sem=%d/%d cmdLine=%d cmdSelf=%d cmdOthers=%d overfull=%v",
		cf.op, cf.steps > 0, cf.busy, cf.state, cf.resident, cf.semRead, cf.semWrite, cf.cmdLine, cf.cmdSelf, cf.cmdOthers, cf.overfull)
}

// offsetsFor lists the cancellation offsets to evaluate for one request whose
// baseline lifetime is t.steps steps.
func offsetsFor(t reqTrace, tier string, r *rng.R, limit int) []int {
	life := t.steps
	if life <= 0 {
		return nil
	}
	set := map[int]bool{}
	add := func(o int) {
		if o >= 0 && o < life {
			set[o] = true
		}
	}
	if tier == "thorough" && life <= limit {
		for o := 0; o < life; o++ {
			add(o)
		}
	} else {
		add(0)
		add(1)
		add(life - 1)
		add(t.busyAt)     // the cycle right after the line lock was acquired
		add(t.busyAt + 1) //
		add(t.cmdAt)      // right after a directory command went out
		add(t.residentAt) // right after the line arrived in L1
		add(t.residentAt + 1)
		add(life - 2)
		n := quickOffsetsPerReq
		if tier == "thorough" {
			n = limit
		}
		for tries := 0; len(set) < n && len(set) < life && tries < 8*n; tries++ {
			add(r.Intn(life))
		}
	}
	out := make([]int, 0, len(set))
	for o := range set {
		out = append(out, o)
	}
	sort.Ints(out)
	return out
}

type sample struct {
	Variant  string    `json:"variant"`
	Cores    int       `json:"cores"`
	Prefill  int       `json:"prefill_requests"`
	Requests []Request `json:"requests"`
	Lifetime []int     `json:"baseline_lifetime_cycles"`
	Cancel   string    `json:"cancellations_evaluated"`
}

// RunIndex executes rig run idx (0-based within the rig part) and records
// evaluations, counters, distinct states, samples and violations into res.
func RunIndex(seed uint64, idx int, tier string, res *api.Result, kf *findings.Set) {
	// the simulation allocates many short-lived small objects (a map per core
	// and cycle inside coSnoop, the snapshots) on a tiny live heap: collect less often
	defer debug.SetGCPercent(debug.SetGCPercent(2000))
	runScenario(generate(seed, idx), seed, idx, tier, res, kf)
}

// runScenario is RunIndex for a given schedule.
func runScenario(sc *Scenario, seed uint64, idx int, tier string, res *api.Result, kf *findings.Set) {
	r := rng.New(rng.Derive(seed, uint64(idx), 0xca9ce1))
	emitted := 0
	report := func(s *Scenario, out *outcome, base *outcome) {
		if out.class == "" {
			return
		}
		res.Count("rig:failed:"+out.class+"@"+sc.Variant, 1)
		if debugFacts {
			res.Count("dbg:"+out.class+"@"+sc.Variant+" | "+factSig(out.cf), 1)
		}
		if s.Cancel == nil {
			res.Count("rig:failed-without-cancellation", 1)
		} else {
			res.Count("rig:failed-with-cancellation", 1)
		}
		if id := knownFinding(s, out, base); id != "" && kf != nil && kf.IsOpen("C06", id) {
			res.Count("rig:known:"+id, 1)
			res.Count("rig:known:"+id+":"+out.class, 1)
			if taggedPerFinding[id] < maxTaggedPerFinding {
				taggedPerFinding[id]++
				res.Violations = append(res.Violations, api.Violation{Property: "C06", Class: out.class + "@rig-" + sc.Variant,
					Detail: out.detail, RunIndex: idx, Seed: seed, KnownFinding: id})
			}
			return
		}
		if emitted >= maxViolationsPerIndex {
			res.Count("rig:violations-not-emitted", 1)
			return
		}
		emitted++
		min, mout := s, out
		if minimisedPerClass[out.class] < maxMinimisedPerClass {
			minimisedPerClass[out.class]++
			min, mout = shrink(s, out)
		}
		res.Violations = append(res.Violations, api.Violation{Property: "C06", Class: out.class + "@rig-" + sc.Variant,
			Detail: mout.detail, RunIndex: idx, Seed: seed, Replay: min.payload()})
	}

	// 1. the schedule without cancellation (fully checked): lifetimes
	base := evaluate(sc, evalOpt{res: res, keepHash: true})
	res.Evaluations++
	res.SimCycles += int64(base.cycles)
	res.Count("rig:evaluations-without-cancellation", 1)
	res.Count("rig:failed-without-cancellation", 0) // always present, so a fault-free failure is visible
	res.Count("rig:failed-with-cancellation", 0)
	res.Count("rig:requests", int64(len(sc.Requests)))
	if base.inconclusive {
		res.Inconclusive++
	}
	if base.class != "" {
		report(sc, base, nil)
		return
	}

	// 2. the cancellation points
	type point struct{ req, off int }
	var pts []point
	perReq := maxEvalsPerIndex / len(sc.Requests)
	for i, t := range base.main {
		for _, o := range offsetsFor(t, tier, r, perReq) {
			pts = append(pts, point{i, o})
		}
	}
	for _, p := range pts {
		s := sc.clone()
		s.Cancel = &Cancellation{Req: p.req, Offset: p.off}
		out := evaluate(s, evalOpt{res: res, baseline: base})
		if out.prefixDiffer {
			// the prefix did not repeat the baseline: check this evaluation from its first cycle
			res.Count("rig:prefix-differs-from-baseline", 1)
			out = evaluate(s, evalOpt{res: res})
		}
		res.Evaluations++
		res.SimCycles += int64(out.cycles)
		res.Count("rig:evaluations-with-cancellation", 1)
		if out.inconclusive {
			res.Inconclusive++
		}
		countCancel(res, out)
		report(s, out, base)
	}
	lt := make([]int, len(base.main))
	for i, t := range base.main {
		lt[i] = t.steps
	}
	res.AddSample(sample{Variant: sc.Variant, Cores: sc.Cores, Prefill: len(sc.Prefill), Requests: sc.Requests, Lifetime: lt,
		Cancel: fmt.Sprintf("%d (request, offset) points", len(pts))}, 3)
}

// countCancel records which kind of cancellation actually fired.
func countCancel(res *api.Result, out *outcome) {
	cf := out.cf
	if !cf.fired {
		res.Count("fired:cancel-never-reached", 1)
		return
	}
	res.Count("fired:cancel", 1)
	switch {
	case cf.steps == 0:
		res.Count("fired:cancel-before-first-step", 1)
	case !cf.busy:
		res.Count("fired:cancel-waiting-for-lock", 1)
	default:
		if cf.semRead > 0 || cf.semWrite > 0 {
			res.Count("fired:cancel-lock-held", 1)
		}
		if cf.state == stateInv {
			res.Count("fired:cancel-during-fetch", 1)
			if cf.resident {
				res.Count("fired:cancel-during-fetch-line-in-l1", 1)
			}
		} else {
			res.Count("fired:cancel-during-l1-access", 1)
		}
		if cf.cmdOthers > 0 {
			res.Count("fired:cancel-snoop-command-outstanding", 1)
		}
		if cf.cmdSelf > 0 || cf.overfull {
			res.Count("fired:cancel-during-capacity-eviction", 1)
		}
	}
}

// Replay re-executes a rig payload (JSON object with "kind":"rig").
func Replay(payload json.RawMessage) (*api.Violation, error) {
	var sc Scenario
	if err := json.Unmarshal(payload, &sc); err != nil {
		return nil, err
	}
	if err := sc.validate(); err != nil {
		return nil, err
	}
	if _, ok := factories[sc.Variant]; !ok {
		return nil, fmt.Errorf("unknown rig variant %q", sc.Variant)
	}
	out := evaluate(&sc, evalOpt{})
	if out.class == "" {
		return nil, nil
	}
	return &api.Violation{Property: "C06", Class: out.class + "@rig-" + sc.Variant, Detail: out.detail, Replay: payload}, nil
}

// Describe returns the rule text, fault kinds and assumptions of the rig part.
func Describe() (rule string, faults, assumptions []string) {
	rule = "one evaluation = one request schedule (up to 12 reads/writes of a byte/half/word from 2-3 cores on 1-3 lines, seeded issue cycles, optional L1/L3 prefill) on the real controllers of MVP-7.0, 7.1 or 8, either without cancellation or with ONE cancellation at one (request, cycle offset) point; per run index the schedule is first run without cancellation, then once per enumerated point (thorough: every offset of every request's lifetime up to 3000 points; quick: ~8 per request incl. first, second, last step and the steps right after the lock / the directory command / the line arrival). Checked: I1..I5 after every cycle (coh.Check), no controller panic, completion within 20*309*(requests+20) cycles, linearizability of the history (porcupine, one register per aligned word), final memory after the end-of-run write-back. distinct = distinct global coherence vectors (coh.Vector) sampled every checked cycle"
	faults = []string{
		"request cancellation (cc.flush) at an enumerated cycle offset: before the first step, while waiting for the lock, with the lock held, during the fetch, during the L1 access, with snoop commands outstanding, during a capacity eviction",
		"snoop evict / snoop write-back served by another core",
		"capacity eviction (L1 prefilled with 16 lines; mvp8: L3 prefilled with 32 lines)",
	}
	assumptions = []string{
		"rig: interleavings are SAMPLED by seed (which core issues what, when); only the cancellation point is enumerated. Exhaustive interleaving enumeration would be model checking and is out of scope",
		"rig: a core has at most one request in flight and re-submits the same addresses every cycle until done, as an execute unit does; a cancellation replaces the request's step of that cycle by cc.flush() (after that cycle's snoop phase), the request is dropped and the core goes on with its next request in the following cycle; at most one cancellation per evaluation",
		"rig: a cancelled request is a squashed wrong-path access. By the code (coWriteToL1 stores the data and completes in the same step) a cancelled write can never have stored anything, so the final-memory check treats it as absent; the linearizability check is deliberately weaker and accepts a cancelled write as a pending operation that may or may not have taken effect; a cancelled read is absent",
		"rig: the per-cycle checks of a cancellation evaluation start one cycle before the cancellation; the cycles before repeat the fully checked no-cancellation run of the same schedule (the state hash at the first checked cycle is compared with that run's; on a mismatch the evaluation is repeated fully checked)",
		"rig: coh.Check is re-evaluated only in cycles where the coherence vector, the set of resident L1/L3 lines or a request's status changed (data bytes change only in such cycles: a store and its completion, a write-back and its command's completion happen in one step); after 2000 cycles without any such change snapshots are taken every 64th cycle until something changes",
		"rig: linearizability is checked per aligned 4-byte word (porcupine partitions), timestamps are cycle*2*cores + 2*core (+1 for the return), i.e. the order in which CPU.Run steps the cores within a cycle; a porcupine timeout counts as inconclusive, never as a violation",
		"rig: map iteration order inside the controllers is the canonical order of the build overlay (identity schedule)",
	}
	return
}
