//go:build verif

package rig

// shrink minimises a failing scenario while the same violation class persists:
// no cancellation, no prefill, fewer requests, fewer cores, earliest issue
// cycles, smaller cancellation offset, less initial memory.
func shrink(sc *Scenario, out *outcome) (*Scenario, *outcome) {
	return shrinkKeeping(sc, out, nil)
}

// shrinkKeeping additionally requires keep(candidate, outcome) of every accepted step.
func shrinkKeeping(sc *Scenario, out *outcome, keep func(*Scenario, *outcome) bool) (*Scenario, *outcome) {
	class := out.class
	best, bestOut := sc.clone(), out
	budget := 400        // evaluations
	cycles := 30_000_000 // simulated cycles (hangs are expensive to re-evaluate)
	try := func(c *Scenario) bool {
		if budget <= 0 || cycles <= 0 || c.validate() != nil {
			return false
		}
		budget--
		o := evaluate(c, evalOpt{})
		cycles -= o.cycles
		if o.class == class && (keep == nil || keep(c, o)) {
			best, bestOut = c, o
			return true
		}
		return false
	}
	for progress := true; progress && budget > 0 && cycles > 0; {
		progress = false
		// without the cancellation at all
		if best.Cancel != nil {
			c := best.clone()
			c.Cancel = nil
			if try(c) {
				progress = true
			}
		}
		// without prefill, or with half of it
		if len(best.Prefill) > 0 {
			c := best.clone()
			c.Prefill = nil
			if try(c) {
				progress = true
			} else {
				for core := 0; core < best.Cores; core++ {
					c := best.clone()
					c.Prefill = nil
					for _, p := range best.Prefill {
						if p.Core != core {
							c.Prefill = append(c.Prefill, p)
						}
					}
					if len(c.Prefill) < len(best.Prefill) && try(c) {
						progress = true
					}
				}
			}
		}
		// drop requests
		for i := len(best.Requests) - 1; i >= 0; i-- {
			if best.Cancel != nil && best.Cancel.Req == i {
				continue
			}
			if len(best.Requests) <= 1 {
				break
			}
			c := best.clone()
			c.Requests = append(c.Requests[:i:i], c.Requests[i+1:]...)
			if c.Cancel != nil && c.Cancel.Req > i {
				c.Cancel.Req--
			}
			if try(c) {
				progress = true
			}
		}
		// drop unused cores (renumber)
		for core := best.Cores - 1; core >= 0 && best.Cores > 1; core-- {
			used := false
			for _, r := range best.Requests {
				used = used || r.Core == core
			}
			for _, r := range best.Prefill {
				used = used || r.Core == core
			}
			if used {
				continue
			}
			c := best.clone()
			c.Cores--
			for i := range c.Requests {
				if c.Requests[i].Core > core {
					c.Requests[i].Core--
				}
			}
			for i := range c.Prefill {
				if c.Prefill[i].Core > core {
					c.Prefill[i].Core--
				}
			}
			if try(c) {
				progress = true
			}
		}
		// earliest issue cycles: all zero, then one by one
		nonzero := false
		for _, r := range best.Requests {
			nonzero = nonzero || r.Issue != 0
		}
		if nonzero {
			c := best.clone()
			for i := range c.Requests {
				c.Requests[i].Issue = 0
			}
			if try(c) {
				progress = true
			} else {
				for i := range best.Requests {
					if best.Requests[i].Issue == 0 {
						continue
					}
					c := best.clone()
					c.Requests[i].Issue = 0
					if try(c) {
						progress = true
						continue
					}
					c = best.clone()
					c.Requests[i].Issue /= 2
					if try(c) {
						progress = true
					}
				}
			}
		}
		// smaller cancellation offset
		if best.Cancel != nil && best.Cancel.Offset > 0 {
			for _, o := range []int{0, 1, best.Cancel.Offset / 2, best.Cancel.Offset - 1} {
				if o >= best.Cancel.Offset {
					continue
				}
				c := best.clone()
				c.Cancel.Offset = o
				if try(c) {
					progress = true
					break
				}
			}
		}
	}
	// initial memory: only the lines that are accessed
	touched := map[int32]bool{}
	for _, r := range best.Requests {
		touched[lineOf(r.Addrs[0])] = true
	}
	for _, r := range best.Prefill {
		touched[lineOf(r.Addrs[0])] = true
	}
	c := best.clone()
	c.Init = nil
	for _, g := range best.Init {
		if touched[lineOf(g.Addr)] {
			c.Init = append(c.Init, g)
		}
	}
	if len(c.Init) < len(best.Init) {
		try(c)
	}
	// ... and of those only the accessed words
	c = best.clone()
	c.Init = nil
	words := map[int32]bool{}
	for _, r := range append(append([]Request(nil), best.Requests...), best.Prefill...) {
		words[r.Addrs[0]&^3] = true
	}
	for _, g := range best.Init {
		for k := 0; k+4 <= len(g.Bytes); k += 4 {
			if a := g.Addr + int32(k); a%4 == 0 && words[a] {
				c.Init = append(c.Init, MemSeg{Addr: a, Bytes: append([]int8(nil), g.Bytes[k:k+4]...)})
			}
		}
	}
	try(c)
	// smallest memory that holds everything
	top := int32(l1LineSize)
	for l := range touched {
		if l+l1LineSize > top {
			top = l + l1LineSize
		}
	}
	for _, g := range best.Init {
		if e := g.Addr + int32(len(g.Bytes)); e > top {
			top = e
		}
	}
	if int(top) < best.MemoryBytes {
		c := best.clone()
		c.MemoryBytes = int(top+l3LineSize-1) / l3LineSize * l3LineSize
		try(c)
	}
	return best, bestOut
}
