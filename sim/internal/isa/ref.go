package isa

import "fmt"

// ErrKind classifies how a reference execution ended.
type ErrKind uint8

const (
	EndOK         ErrKind = iota // ret, fall-through or jump to the end
	EndDivZero                   // executed div/rem with a zero divisor: defined error
	EndUndefLabel                // taken branch / jump to an undefined label: defined error
	// The remaining kinds mean "not a well-formed program for the properties".
	BadStepLimit
	BadAccess     // out of bounds or misaligned access on the executed path
	BadJumpTarget // jalr to something that is not an instruction address
)

func (k ErrKind) String() string {
	return [...]string{"ok", "div-by-zero", "undefined-label", "step-limit", "bad-access", "bad-jump-target"}[k]
}
func (k ErrKind) WellFormed() bool   { return k <= EndUndefLabel }
func (k ErrKind) DefinedError() bool { return k == EndDivZero || k == EndUndefLabel }

// Step is one executed instruction of the reference trace.
type Step struct {
	Idx     int32 // instruction index
	Addr    int32 // accessed address for loads/stores
	Value   int32 // value written to Rd (if any) or stored
	Taken   bool  // conditional branch taken / jump
	WroteRd bool
}

// State is an architectural state.
type State struct {
	Regs [NumRegs]int32
	Mem  []int8
}

func (s *State) Clone() *State {
	return &State{Regs: s.Regs, Mem: append([]int8(nil), s.Mem...)}
}

// Result of a reference execution.
type Result struct {
	End   ErrKind
	Final *State
	Trace []Step
	// ExitKind: 0 ret, 1 fall-through past the last instruction, 2 jump/branch to the end
	ExitKind int
}

// Exec runs p sequentially from init (which is not modified).
func Exec(p *Program, init *State, maxSteps int, keepTrace bool) *Result {
	st := init.Clone()
	res := &Result{Final: st}
	n := int32(len(p.Insts))
	var pc int32
	steps := 0
	lastWasJump := false
	for {
		if pc/4 >= n {
			res.End = EndOK
			if lastWasJump {
				res.ExitKind = 2
			} else {
				res.ExitKind = 1
			}
			return res
		}
		if steps >= maxSteps {
			res.End = BadStepLimit
			return res
		}
		steps++
		in := p.Insts[pc/4]
		step := Step{Idx: pc / 4}
		next := pc + 4
		lastWasJump = false
		rs1 := st.Regs[in.Rs1]
		rs2 := st.Regs[in.Rs2]
		var rd int32
		writes := false
		branch := func(cond bool) bool {
			if !cond {
				return true
			}
			t, ok := p.Labels[in.Label]
			if !ok {
				res.End = EndUndefLabel
				return false
			}
			next = int32(t) * 4
			step.Taken = true
			lastWasJump = true
			return true
		}
		ok := true
		switch in.Op {
		case ADD:
			rd, writes = rs1+rs2, true
		case ADDI:
			rd, writes = rs1+in.Imm, true
		case AND:
			rd, writes = rs1&rs2, true
		case ANDI:
			rd, writes = rs1&in.Imm, true
		case OR:
			rd, writes = rs1|rs2, true
		case ORI:
			rd, writes = rs1|in.Imm, true
		case XOR:
			rd, writes = rs1^rs2, true
		case XORI:
			rd, writes = rs1^in.Imm, true
		case SUB:
			rd, writes = rs1-rs2, true
		case MUL:
			rd, writes = int32(uint32(rs1)*uint32(rs2)), true
		case DIV, REM:
			if rs2 == 0 {
				res.End = EndDivZero
				ok = false
				break
			}
			if rs1 == -1<<31 && rs2 == -1 {
				if in.Op == DIV {
					rd = rs1
				} else {
					rd = 0
				}
			} else if in.Op == DIV {
				rd = rs1 / rs2
			} else {
				rd = rs1 % rs2
			}
			writes = true
		case SLL:
			rd, writes = int32(uint32(rs1)<<(uint32(rs2)&31)), true
		case SLLI:
			rd, writes = int32(uint32(rs1)<<(uint32(in.Imm)&31)), true
		case SRL:
			rd, writes = int32(uint32(rs1)>>(uint32(rs2)&31)), true
		case SRLI:
			rd, writes = int32(uint32(rs1)>>(uint32(in.Imm)&31)), true
		case SRA:
			rd, writes = rs1>>(uint32(rs2)&31), true
		case SRAI:
			rd, writes = rs1>>(uint32(in.Imm)&31), true
		case SLT:
			rd, writes = b2i(rs1 < rs2), true
		case SLTI:
			rd, writes = b2i(rs1 < in.Imm), true
		case SLTU:
			rd, writes = b2i(uint32(rs1) < uint32(rs2)), true
		case LI:
			rd, writes = in.Imm, true
		case LUI:
			rd, writes = int32(uint32(in.Imm)<<12), true
		case AUIPC:
			rd, writes = pc+int32(uint32(in.Imm)<<12), true
		case MV:
			rd, writes = rs1, true
		case NOP:
		case RET:
			res.End = EndOK
			res.ExitKind = 0
			if keepTrace {
				res.Trace = append(res.Trace, step)
			}
			return res
		case BEQ:
			ok = branch(rs1 == rs2)
		case BNE:
			ok = branch(rs1 != rs2)
		case BLT:
			ok = branch(rs1 < rs2)
		case BGE:
			ok = branch(rs1 >= rs2)
		case BLE:
			ok = branch(rs1 <= rs2)
		case BLTU:
			ok = branch(uint32(rs1) < uint32(rs2))
		case BGEU:
			ok = branch(uint32(rs1) >= uint32(rs2))
		case BEQZ:
			ok = branch(rs1 == 0)
		case BNEZ:
			ok = branch(rs1 != 0)
		case J:
			ok = branch(true)
		case JAL:
			ok = branch(true)
			rd, writes = pc+4, true
		case JALR:
			t := rs1 + in.Imm
			if t < 0 || t%4 != 0 || t/4 > n {
				res.End = BadJumpTarget
				ok = false
				break
			}
			next = t
			step.Taken = true
			lastWasJump = true
			rd, writes = pc+4, true
		case LB, LH, LW:
			a := rs1 + in.Imm
			sz := int32(in.Op.AccessSize())
			if a < 0 || int(a)+int(sz) > len(st.Mem) || (a%sz != 0 && !p.Misaligned) {
				res.End = BadAccess
				ok = false
				break
			}
			step.Addr = a
			switch in.Op {
			case LB:
				rd = int32(st.Mem[a])
			case LH:
				rd = int32(int16(uint16(uint8(st.Mem[a])) | uint16(uint8(st.Mem[a+1]))<<8))
			case LW:
				rd = int32(uint32(uint8(st.Mem[a])) | uint32(uint8(st.Mem[a+1]))<<8 | uint32(uint8(st.Mem[a+2]))<<16 | uint32(uint8(st.Mem[a+3]))<<24)
			}
			writes = true
		case SB, SH, SW:
			a := rs1 + in.Imm
			sz := int32(in.Op.AccessSize())
			if a < 0 || int(a)+int(sz) > len(st.Mem) || (a%sz != 0 && !p.Misaligned) {
				res.End = BadAccess
				ok = false
				break
			}
			step.Addr = a
			step.Value = rs2
			for i := int32(0); i < sz; i++ {
				st.Mem[a+i] = int8(uint32(rs2) >> (8 * uint(i)))
			}
		default:
			panic(fmt.Sprintf("ref: unknown op %d", in.Op))
		}
		if !ok {
			if keepTrace {
				res.Trace = append(res.Trace, step)
			}
			return res
		}
		if writes {
			step.WroteRd = true
			step.Value = rd
			if in.Rd != Zero {
				st.Regs[in.Rd] = rd
			}
		}
		if keepTrace {
			res.Trace = append(res.Trace, step)
		}
		pc = next
	}
}

func b2i(b bool) int32 {
	if b {
		return 1
	}
	return 0
}
