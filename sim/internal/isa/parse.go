package isa

import (
	"fmt"
	"strconv"
	"strings"
)

// ParseText reads the harness's own printed syntax back into IR (used to
// write replay files by hand; the machine under test always goes through the
// real risc.Parse).
func ParseText(src string) (*Program, error) {
	p := &Program{Labels: map[string]int{}}
	reg := func(s string) (Reg, error) {
		s = strings.TrimSpace(s)
		for r := Reg(0); r < NumRegs; r++ {
			if r.String() == s {
				return r, nil
			}
		}
		return 0, fmt.Errorf("unknown register %q", s)
	}
	imm := func(s string) (int32, error) {
		v, err := strconv.ParseInt(strings.TrimSpace(s), 10, 32)
		return int32(v), err
	}
	for _, raw := range strings.Split(src, "\n") {
		line := strings.TrimSpace(raw)
		if i := strings.Index(line, "#"); i >= 0 {
			line = strings.TrimSpace(line[:i])
		}
		if line == "" {
			continue
		}
		if strings.HasSuffix(line, ":") && !strings.Contains(line, " ") {
			p.Labels[line[:len(line)-1]] = len(p.Insts)
			continue
		}
		mn, rest, _ := strings.Cut(line, " ")
		var op Op = NumOps
		for o := Op(0); o < NumOps; o++ {
			if o.String() == strings.ToLower(mn) {
				op = o
			}
		}
		if op == NumOps {
			return nil, fmt.Errorf("unknown mnemonic %q", mn)
		}
		var a []string
		if strings.TrimSpace(rest) != "" {
			a = strings.Split(rest, ",")
		}
		in := Inst{Op: op}
		var err error
		need := func(n int) error {
			if len(a) != n {
				return fmt.Errorf("%s: expected %d operands", line, n)
			}
			return nil
		}
		offReg := func(s string) (int32, Reg, error) {
			s = strings.TrimSpace(s)
			i := strings.Index(s, "(")
			if i < 0 || !strings.HasSuffix(s, ")") {
				return 0, 0, fmt.Errorf("bad offset(register) %q", s)
			}
			v, err := imm(s[:i])
			if err != nil {
				return 0, 0, err
			}
			r, err := reg(s[i+1 : len(s)-1])
			return v, r, err
		}
		switch op.Shape() {
		case ShapeNone:
			err = need(0)
		case ShapeRRR:
			if err = need(3); err == nil {
				if in.Rd, err = reg(a[0]); err == nil {
					if in.Rs1, err = reg(a[1]); err == nil {
						in.Rs2, err = reg(a[2])
					}
				}
			}
		case ShapeRRI:
			if err = need(3); err == nil {
				if in.Rd, err = reg(a[0]); err == nil {
					if in.Rs1, err = reg(a[1]); err == nil {
						in.Imm, err = imm(a[2])
					}
				}
			}
		case ShapeRI:
			if err = need(2); err == nil {
				if in.Rd, err = reg(a[0]); err == nil {
					in.Imm, err = imm(a[1])
				}
			}
		case ShapeRR:
			if err = need(2); err == nil {
				if in.Rd, err = reg(a[0]); err == nil {
					in.Rs1, err = reg(a[1])
				}
			}
		case ShapeBranch2:
			if err = need(3); err == nil {
				if in.Rs1, err = reg(a[0]); err == nil {
					if in.Rs2, err = reg(a[1]); err == nil {
						in.Label = strings.TrimSpace(a[2])
					}
				}
			}
		case ShapeBranch1:
			if err = need(2); err == nil {
				if in.Rs1, err = reg(a[0]); err == nil {
					in.Label = strings.TrimSpace(a[1])
				}
			}
		case ShapeJ:
			if err = need(1); err == nil {
				in.Label = strings.TrimSpace(a[0])
			}
		case ShapeJal:
			if err = need(2); err == nil {
				if in.Rd, err = reg(a[0]); err == nil {
					in.Label = strings.TrimSpace(a[1])
				}
			}
		case ShapeLoad:
			if err = need(2); err == nil {
				if in.Rd, err = reg(a[0]); err == nil {
					in.Imm, in.Rs1, err = offReg(a[1])
				}
			}
		case ShapeStore:
			if err = need(2); err == nil {
				if in.Rs2, err = reg(a[0]); err == nil {
					in.Imm, in.Rs1, err = offReg(a[1])
				}
			}
		case ShapeStoreH:
			if err = need(3); err == nil {
				if in.Rs2, err = reg(a[0]); err == nil {
					if in.Imm, err = imm(a[1]); err == nil {
						in.Rs1, err = reg(a[2])
					}
				}
			}
		}
		if err != nil {
			return nil, fmt.Errorf("%q: %v", line, err)
		}
		p.Insts = append(p.Insts, in)
	}
	return p, nil
}
