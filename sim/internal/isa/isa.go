// Package isa is the harness's own intermediate representation of the
// assembly subset majorana accepts, its printer (text for risc.Parse) and an
// independent sequential reference interpreter (DESIGN §3). Nothing in here
// imports majorana.
package isa

import (
	"fmt"
	"sort"
	"strings"
)

type Reg uint8

// Register numbering follows majorana's RegisterType order so that Reg(i)
// and risc.RegisterType(i) name the same register.
const (
	Zero Reg = iota
	Ra
	Sp
	Gp
	Tp
	T0
	T1
	T2
	S0
	S1
	A0
	A1
	A2
	A3
	A4
	A5
	A6
	A7
	S2
	S3
	S4
	S5
	S6
	S7
	S8
	S9
	S10
	S11
	T3
	T4
	T5
	T6
	NumRegs
)

var regNames = [NumRegs]string{"zero", "ra", "sp", "gp", "tp", "t0", "t1", "t2", "s0", "s1",
	"a0", "a1", "a2", "a3", "a4", "a5", "a6", "a7", "s2", "s3", "s4", "s5", "s6", "s7", "s8", "s9", "s10", "s11",
	"t3", "t4", "t5", "t6"}

func (r Reg) String() string { return regNames[r] }

type Op uint8

const (
	ADD Op = iota
	ADDI
	AND
	ANDI
	AUIPC
	BEQ
	BEQZ
	BGE
	BGEU
	BLE
	BLT
	BLTU
	BNE
	BNEZ
	DIV
	J
	JAL
	JALR
	LUI
	LB
	LH
	LI
	LW
	NOP
	MUL
	MV
	OR
	ORI
	REM
	RET
	SB
	SH
	SLL
	SLLI
	SLT
	SLTU
	SLTI
	SRA
	SRAI
	SRL
	SRLI
	SUB
	SW
	XOR
	XORI
	NumOps
)

var opNames = [NumOps]string{"add", "addi", "and", "andi", "auipc", "beq", "beqz", "bge", "bgeu", "ble", "blt", "bltu",
	"bne", "bnez", "div", "j", "jal", "jalr", "lui", "lb", "lh", "li", "lw", "nop", "mul", "mv", "or", "ori", "rem", "ret",
	"sb", "sh", "sll", "slli", "slt", "sltu", "slti", "sra", "srai", "srl", "srli", "sub", "sw", "xor", "xori"}

func (o Op) String() string { return opNames[o] }

// Shape is the operand shape of an op (how it is printed and which fields matter).
type Shape uint8

const (
	ShapeNone    Shape = iota // ret, nop
	ShapeRRR                  // rd, rs1, rs2
	ShapeRRI                  // rd, rs1, imm
	ShapeRI                   // rd, imm        (li, lui, auipc)
	ShapeRR                   // rd, rs1        (mv)
	ShapeBranch2              // rs1, rs2, label
	ShapeBranch1              // rs1, label
	ShapeJ                    // label
	ShapeJal                  // rd, label
	ShapeLoad                 // rd, imm(rs1)
	ShapeStore                // rs2, imm(rs1)   value=rs2 base=rs1
	ShapeStoreH               // rs2, imm, rs1   (sh quirk)
)

func (o Op) Shape() Shape {
	switch o {
	case RET, NOP:
		return ShapeNone
	case ADD, AND, DIV, MUL, OR, REM, SLL, SLT, SLTU, SRA, SRL, SUB, XOR:
		return ShapeRRR
	case ADDI, ANDI, ORI, SLLI, SLTI, SRAI, SRLI, XORI, JALR:
		return ShapeRRI
	case LI, LUI, AUIPC:
		return ShapeRI
	case MV:
		return ShapeRR
	case BEQ, BGE, BGEU, BLE, BLT, BLTU, BNE:
		return ShapeBranch2
	case BEQZ, BNEZ:
		return ShapeBranch1
	case J:
		return ShapeJ
	case JAL:
		return ShapeJal
	case LB, LH, LW:
		return ShapeLoad
	case SB, SW:
		return ShapeStore
	case SH:
		return ShapeStoreH
	}
	panic("shape")
}

func (o Op) IsLoad() bool       { return o == LB || o == LH || o == LW }
func (o Op) IsStore() bool      { return o == SB || o == SH || o == SW }
func (o Op) IsCondBranch() bool { s := o.Shape(); return s == ShapeBranch1 || s == ShapeBranch2 }
func (o Op) IsJump() bool       { return o == J || o == JAL || o == JALR }
func (o Op) AccessSize() int {
	switch o {
	case LB, SB:
		return 1
	case LH, SH:
		return 2
	case LW, SW:
		return 4
	}
	return 0
}

// Inst is one instruction. Rd is the destination (value register for
// stores is Rs2, base register for loads/stores is Rs1).
type Inst struct {
	Op    Op     `json:"op"`
	Rd    Reg    `json:"rd,omitempty"`
	Rs1   Reg    `json:"rs1,omitempty"`
	Rs2   Reg    `json:"rs2,omitempty"`
	Imm   int32  `json:"imm,omitempty"`
	Label string `json:"label,omitempty"`
}

// Reads returns the architectural registers the instruction reads (RV32IM).
func (in Inst) Reads() []Reg {
	switch in.Op.Shape() {
	case ShapeRRR, ShapeBranch2:
		return []Reg{in.Rs1, in.Rs2}
	case ShapeRRI, ShapeRR, ShapeBranch1, ShapeLoad:
		return []Reg{in.Rs1}
	case ShapeStore, ShapeStoreH:
		return []Reg{in.Rs1, in.Rs2}
	}
	return nil
}

// Writes returns the destination register, if the op has one.
func (in Inst) Writes() (Reg, bool) {
	switch in.Op.Shape() {
	case ShapeRRR, ShapeRRI, ShapeRI, ShapeRR, ShapeJal, ShapeLoad:
		return in.Rd, true
	}
	return 0, false
}

func (in Inst) String() string {
	m := in.Op.String()
	switch in.Op.Shape() {
	case ShapeNone:
		return m
	case ShapeRRR:
		return fmt.Sprintf("%s %s, %s, %s", m, in.Rd, in.Rs1, in.Rs2)
	case ShapeRRI:
		return fmt.Sprintf("%s %s, %s, %d", m, in.Rd, in.Rs1, in.Imm)
	case ShapeRI:
		return fmt.Sprintf("%s %s, %d", m, in.Rd, in.Imm)
	case ShapeRR:
		return fmt.Sprintf("%s %s, %s", m, in.Rd, in.Rs1)
	case ShapeBranch2:
		return fmt.Sprintf("%s %s, %s, %s", m, in.Rs1, in.Rs2, in.Label)
	case ShapeBranch1:
		return fmt.Sprintf("%s %s, %s", m, in.Rs1, in.Label)
	case ShapeJ:
		return fmt.Sprintf("%s %s", m, in.Label)
	case ShapeJal:
		return fmt.Sprintf("%s %s, %s", m, in.Rd, in.Label)
	case ShapeLoad:
		return fmt.Sprintf("%s %s, %d(%s)", m, in.Rd, in.Imm, in.Rs1)
	case ShapeStore:
		return fmt.Sprintf("%s %s, %d(%s)", m, in.Rs2, in.Imm, in.Rs1)
	case ShapeStoreH:
		return fmt.Sprintf("%s %s, %d, %s", m, in.Rs2, in.Imm, in.Rs1)
	}
	panic("print")
}

// Program is an instruction list plus labels (label -> instruction index,
// len(Insts) meaning "after the last instruction").
type Program struct {
	Insts  []Inst         `json:"insts"`
	Labels map[string]int `json:"labels"`
	// Misaligned admits loads and stores at addresses that are not a multiple
	// of their size (byte-wise little-endian semantics, as the machines
	// implement them). Off by default: the whole-machine properties are checked
	// on naturally aligned programs; the unaligned sub-profile of C12 sets it.
	Misaligned bool `json:"misaligned,omitempty"`
}

func (p *Program) Clone() *Program {
	q := &Program{Insts: append([]Inst(nil), p.Insts...), Labels: make(map[string]int, len(p.Labels)), Misaligned: p.Misaligned}
	for k, v := range p.Labels {
		q.Labels[k] = v
	}
	return q
}

// Text prints the program in the syntax risc.Parse accepts.
func (p *Program) Text() string {
	at := make(map[int][]string)
	for l, i := range p.Labels {
		at[i] = append(at[i], l)
	}
	var b strings.Builder
	for i := 0; i <= len(p.Insts); i++ {
		ls := at[i]
		sort.Strings(ls)
		for _, l := range ls {
			b.WriteString(l)
			b.WriteString(":\n")
		}
		if i < len(p.Insts) {
			b.WriteString("  ")
			b.WriteString(p.Insts[i].String())
			b.WriteString("\n")
		}
	}
	return b.String()
}

// RemoveAt deletes instruction i, re-anchoring labels.
func (p *Program) RemoveAt(i int) {
	p.Insts = append(p.Insts[:i], p.Insts[i+1:]...)
	for l, at := range p.Labels {
		if at > i {
			p.Labels[l] = at - 1
		}
	}
}
