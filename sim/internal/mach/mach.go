// Package mach runs the real majorana machines under the harness: it builds a
// variant, installs the tick / probe hooks (build tag verif), enforces the
// cycle budget, recovers panics and extracts the architectural outcome.
package mach

import (
	"fmt"
	"strings"

	"github.com/teivah/majorana/proc/mvp1"
	"github.com/teivah/majorana/proc/mvp2"
	"github.com/teivah/majorana/proc/mvp3"
	"github.com/teivah/majorana/proc/mvp4"
	"github.com/teivah/majorana/proc/mvp5"
	mvp6_0 "github.com/teivah/majorana/proc/mvp6-0"
	mvp6_1 "github.com/teivah/majorana/proc/mvp6-1"
	mvp6_2 "github.com/teivah/majorana/proc/mvp6-2"
	mvp6_3 "github.com/teivah/majorana/proc/mvp6-3"
	mvp7_0 "github.com/teivah/majorana/proc/mvp7-0"
	mvp7_1 "github.com/teivah/majorana/proc/mvp7-1"
	mvp8_0 "github.com/teivah/majorana/proc/mvp8-0"
	"github.com/teivah/majorana/risc"

	"verifsim/internal/isa"
)

type Variant uint8

const (
	MVP1 Variant = iota
	MVP2
	MVP3
	MVP4
	MVP5
	MVP60
	MVP61
	MVP62
	MVP63
	MVP70
	MVP71
	MVP80
	NumVariants
)

var variantNames = [NumVariants]string{"mvp1", "mvp2", "mvp3", "mvp4", "mvp5", "mvp6-0", "mvp6-1", "mvp6-2", "mvp6-3", "mvp7-0", "mvp7-1", "mvp8-0"}

func (v Variant) String() string { return variantNames[v] }

func ParseVariant(s string) (Variant, bool) {
	for i, n := range variantNames {
		if n == s {
			return Variant(i), true
		}
	}
	return 0, false
}

func (v Variant) Pipelined() bool   { return v >= MVP4 }
func (v Variant) Superscalar() bool { return v >= MVP60 }
func (v Variant) MultiCore() bool   { return v >= MVP70 }
func (v Variant) HasDCache() bool   { return v >= MVP3 }

// Config selects a variant and its parallelism. EU/WU are used by MVP-6.x,
// Cores by MVP-7.x/8; the others ignore them.
type Config struct {
	V     Variant `json:"variant"`
	EU    int     `json:"eu,omitempty"`
	WU    int     `json:"wu,omitempty"`
	Cores int     `json:"cores,omitempty"`
}

func (c Config) String() string {
	switch {
	case c.V >= MVP70:
		return fmt.Sprintf("%s/cores=%d", c.V, c.Cores)
	case c.V >= MVP60:
		return fmt.Sprintf("%s/eu=%d,wu=%d", c.V, c.EU, c.WU)
	}
	return c.V.String()
}

// Parallelism is the issue width used by C12's lower bound.
func (c Config) Parallelism() int {
	switch {
	case c.V >= MVP70:
		return c.Cores
	case c.V >= MVP60:
		return c.EU
	}
	return 1
}

// Normalize fills unused fields with zero and used ones with at least 1.
func (c Config) Normalize() Config {
	switch {
	case c.V >= MVP70:
		if c.Cores < 1 {
			c.Cores = 1
		}
		c.EU, c.WU = 0, 0
	case c.V >= MVP60:
		if c.EU < 1 {
			c.EU = 1
		}
		if c.WU < 1 {
			c.WU = 1
		}
		c.Cores = 0
	default:
		c.EU, c.WU, c.Cores = 0, 0, 0
	}
	return c
}

// VM is what every variant's CPU offers.
type VM interface {
	Run(application risc.Application) (int, error)
	Context() *risc.Context
}

func New(c Config, memoryBytes int, debug bool) VM {
	switch c.V {
	case MVP1:
		return mvp1.NewCPU(debug, memoryBytes)
	case MVP2:
		return mvp2.NewCPU(debug, memoryBytes)
	case MVP3:
		return mvp3.NewCPU(debug, memoryBytes)
	case MVP4:
		return mvp4.NewCPU(debug, memoryBytes)
	case MVP5:
		return mvp5.NewCPU(debug, memoryBytes)
	case MVP60:
		return mvp6_0.NewCPU(debug, memoryBytes, c.EU, c.WU)
	case MVP61:
		return mvp6_1.NewCPU(debug, memoryBytes, c.EU, c.WU)
	case MVP62:
		return mvp6_2.NewCPU(debug, memoryBytes, c.EU, c.WU)
	case MVP63:
		return mvp6_3.NewCPU(debug, memoryBytes, c.EU, c.WU)
	case MVP70:
		return mvp7_0.NewCPU(debug, memoryBytes, c.Cores)
	case MVP71:
		return mvp7_1.NewCPU(debug, memoryBytes, c.Cores)
	case MVP80:
		return mvp8_0.NewCPU(debug, memoryBytes, c.Cores)
	}
	panic("variant")
}

// Outcome is everything the caller of Run can observe, plus harness verdicts.
type Outcome struct {
	Cycles   int
	Err      string // non-empty if Run returned an error
	Panic    string // non-empty if Run panicked (first line)
	PanicLoc string // innermost majorana frame of the panic
	Budget   bool   // tick budget exceeded (hang verdict)
	Ticks    int
	Regs     [isa.NumRegs]int32
	Mem      []int8
	Probes   [risc.VerifProbeKinds]int
	// ExtraRegs is set if the register map holds keys outside the 32 registers.
	ExtraRegs bool
}

type budgetExceeded struct{}

// TickFn, if non-nil, is called at every tick (after budget accounting).
type Hooks struct {
	Tick  func(vm VM, cycle int)
	Probe func(kind uint8)
}

// Run executes app on a fresh machine of configuration c.
func Run(c Config, app risc.Application, init *isa.State, budgetTicks int, h *Hooks) *Outcome {
	vm := New(c, len(init.Mem), false)
	return RunOn(vm, app, init, budgetTicks, h)
}

// RunOn executes app on the given (fresh) machine.
func RunOn(vm VM, app risc.Application, init *isa.State, budgetTicks int, h *Hooks) (out *Outcome) {
	ctx := vm.Context()
	for r := isa.Reg(1); r < isa.NumRegs; r++ {
		if v := init.Regs[r]; v != 0 {
			ctx.Registers[risc.RegisterType(r)] = v
		}
	}
	copy(ctx.Memory, init.Mem)
	out = &Outcome{}
	ctx.VerifSetHooks(func(cycle int) {
		out.Ticks++
		if budgetTicks > 0 && out.Ticks > budgetTicks {
			panic(budgetExceeded{})
		}
		if h != nil && h.Tick != nil {
			h.Tick(vm, cycle)
		}
	}, func(kind uint8) {
		if int(kind) < len(out.Probes) {
			out.Probes[kind]++
		}
		if h != nil && h.Probe != nil {
			h.Probe(kind)
		}
	})
	func() {
		defer func() {
			if r := recover(); r != nil {
				if _, ok := r.(budgetExceeded); ok {
					out.Budget = true
					return
				}
				out.Panic = firstLine(fmt.Sprint(r))
				out.PanicLoc = panicLocation()
			}
		}()
		cycles, err := vm.Run(app)
		out.Cycles = cycles
		if err != nil {
			out.Err = err.Error()
			if out.Err == "" {
				out.Err = "error"
			}
		}
	}()
	ctx.VerifSetHooks(nil, nil)
	for k, v := range ctx.Registers {
		if k >= risc.RegisterType(isa.NumRegs) {
			out.ExtraRegs = true
			continue
		}
		out.Regs[k] = v
	}
	out.Mem = append([]int8(nil), ctx.Memory...)
	return out
}

func firstLine(s string) string {
	if i := strings.IndexByte(s, '\n'); i >= 0 {
		s = s[:i]
	}
	if len(s) > 120 {
		s = s[:120]
	}
	return s
}
