package mach

import (
	"runtime"
	"strings"
)

// panicLocation returns "file:line" of the innermost frame inside majorana on
// the panicking goroutine's stack (called from a deferred function).
func panicLocation() string {
	pcs := make([]uintptr, 64)
	n := runtime.Callers(2, pcs)
	frames := runtime.CallersFrames(pcs[:n])
	for {
		f, more := frames.Next()
		if i := strings.Index(f.Function, "teivah/majorana/"); i >= 0 {
			// the function, not file:line: stable under the overlay and unrelated edits
			return f.Function[i+len("teivah/majorana/"):]
		}
		if !more {
			break
		}
	}
	return ""
}

func itoa(n int) string {
	if n == 0 {
		return "0"
	}
	var b [20]byte
	i := len(b)
	for n > 0 {
		i--
		b[i] = byte('0' + n%10)
		n /= 10
	}
	return string(b[i:])
}
