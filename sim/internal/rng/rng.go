// Package rng is the single source of pseudo-randomness of the harness:
// splitmix64-seeded xoshiro-like streams derived from (VERIF_SEED, labels).
package rng

type R struct{ s uint64 }

func mix(z uint64) uint64 {
	z += 0x9e3779b97f4a7c15
	z = (z ^ (z >> 30)) * 0xbf58476d1ce4e5b9
	z = (z ^ (z >> 27)) * 0x94d049bb133111eb
	return z ^ (z >> 31)
}

// Derive makes an independent seed from a parent seed and labels.
func Derive(seed uint64, labels ...uint64) uint64 {
	h := mix(seed)
	for _, l := range labels {
		h = mix(h ^ mix(l+0x632be59bd9b4e019))
	}
	return h
}

func HashString(s string) uint64 {
	var h uint64 = 1469598103934665603
	for i := 0; i < len(s); i++ {
		h ^= uint64(s[i])
		h *= 1099511628211
	}
	return h
}

func New(seed uint64) *R { return &R{s: seed} }

func (r *R) U64() uint64 {
	r.s += 0x9e3779b97f4a7c15
	z := r.s
	z = (z ^ (z >> 30)) * 0xbf58476d1ce4e5b9
	z = (z ^ (z >> 27)) * 0x94d049bb133111eb
	return z ^ (z >> 31)
}

// Intn returns a value in [0,n).
func (r *R) Intn(n int) int {
	if n <= 1 {
		return 0
	}
	return int(r.U64() % uint64(n))
}

// Range returns a value in [lo,hi].
func (r *R) Range(lo, hi int) int {
	if hi <= lo {
		return lo
	}
	return lo + r.Intn(hi-lo+1)
}

func (r *R) Bool() bool { return r.U64()&1 == 1 }

// Chance is true with probability num/den.
func (r *R) Chance(num, den int) bool { return r.Intn(den) < num }

func (r *R) I32() int32 { return int32(uint32(r.U64())) }

// Pick returns an index chosen with the given weights.
func (r *R) Pick(weights []int) int {
	t := 0
	for _, w := range weights {
		t += w
	}
	if t <= 0 {
		return 0
	}
	x := r.Intn(t)
	for i, w := range weights {
		if x < w {
			return i
		}
		x -= w
	}
	return len(weights) - 1
}

func (r *R) Shuffle(n int, swap func(i, j int)) {
	for i := n - 1; i > 0; i-- {
		j := r.Intn(i + 1)
		swap(i, j)
	}
}
