// Package c14 decides property C14 (see /verif/DESIGN.md §5): pipeline buses
// deliver each item once, in order, a cycle later, within capacity.
//
// Deterministic simulation of ONE real comp.BufferedBus / comp.SimpleBus with
// seeded producer, consumer and clock tasks and the fault operations Clean,
// DeleteLast and Revert placed inside the flow; oracle = FIFO-with-latency
// reference model compared after every operation plus exactly-once / order /
// latency / capacity accounting over the history.
package c14

import (
	"encoding/json"
	"fmt"

	"verifsim/internal/api"
	"verifsim/internal/findings"
	"verifsim/internal/rng"
)

type check struct{ f factory }

// New returns the C14 check.
func New() api.Check { return check{f: realFactory()} }

func (check) ID() string { return "C14" }

func (check) Runs(tier string) int {
	if tier == "thorough" {
		return 5000000
	}
	return 50000
}

const (
	maxFreshPerClass = 4 // shrunk and written out per class and batch
	maxKnownPerBatch = 1 // tagged violations emitted per known finding, by the batch that starts at index 0
)

type sample struct {
	Run     int      `json:"run_index"`
	History *History `json:"history"`
	Summary string   `json:"summary"`
}

func (c check) Run(b api.Batch) *api.Result {
	res := api.NewResult()
	kf := findings.Default()
	opts := execOpts{openKF: func(id string) bool { return kf.IsOpen("C14", id) }}
	emitted := map[string]int{}
	for i := b.From; i < b.To; i++ {
		h := generate(rng.New(rng.Derive(b.Seed, uint64(i))))
		out := execute(h, c.f, opts)
		c.account(res, h, out)
		if out.st.nontrivial() && len(res.Samples) < 3 {
			s := h.clone()
			annotate(s, c.f, opts)
			res.AddSample(sample{Run: i, History: s, Summary: fmt.Sprintf("%d ops, %d cycles, %d delivered, back-pressure %d+%d, faults clean=%d dellast=%d revert=%d flush=%d pick=%d",
				len(h.Ops), out.st.cycles, out.st.delivered, out.st.addRefused, out.st.connectBlocked,
				out.st.faultClean, out.st.faultDelLast, out.st.faultRevert, out.st.faultFlush, out.st.pickHit)}, 3)
		}
		v := out.reported()
		if v == nil {
			continue
		}
		key := v.Class + "/" + v.KF
		if v.KF != "" {
			res.Count("histories_hitting_known_finding:"+v.KF, 1)
			// one tagged violation per run is evidence enough (the driver caps
			// the merged violation list; fresh ones must never be crowded out)
			if b.From != 0 || emitted[key] >= maxKnownPerBatch {
				continue
			}
		} else {
			res.Count("violating_histories:"+v.Class, 1)
			if emitted[key] >= maxFreshPerClass {
				res.Count("violations_not_written_out", 1)
				continue
			}
		}
		emitted[key]++
		small := shrink(h, c.f, opts, v)
		sv := execute(small, c.f, opts).reported()
		if !sameVerdict(sv, v) { // cannot happen; keep the original if it does
			small = h.clone()
			annotate(small, c.f, opts)
			sv = v
		}
		payload, _ := json.Marshal(small)
		res.Violations = append(res.Violations, api.Violation{
			Property: "C14", Class: sv.Class, Detail: sv.Detail + fmt.Sprintf(" [%s q=%d b=%d, %d ops]", small.Kind, small.Q, small.B, len(small.Ops)),
			RunIndex: i, Seed: b.Seed, Replay: payload, KnownFinding: sv.KF,
		})
	}
	return res
}

var opNames = func() [16]string {
	var n [16]string
	for k, c := range opCodes {
		n[c] = k
	}
	return n
}()

func (c check) account(res *api.Result, h *History, out *outcome) {
	st := &out.st
	res.Evaluations++
	res.SimCycles += st.cycles
	for code, n := range st.ops {
		if n > 0 && opNames[code] != "" {
			res.Count("ops:"+opNames[code], n)
		}
	}
	res.Count("backpressure:add_refused", st.addRefused)
	res.Count("backpressure:connect_blocked_by_full_output", st.connectBlocked)
	res.Count("fault:clean", st.faultClean)
	res.Count("fault:flush", st.faultFlush)
	res.Count("fault:dellast", st.faultDelLast)
	res.Count("fault:revert", st.faultRevert)
	res.Count("fault:no_effect", st.faultNoop)
	res.Count("pick:hit", st.pickHit)
	res.Count("pick:miss", st.pickMiss)
	res.Count("items_delivered", st.delivered)
	if h.Kind == kindSimple {
		res.Count("histories:simple", 1)
	} else {
		res.Count(fmt.Sprintf("histories:buffered:q%d:b%d", h.Q, h.B), 1)
	}
	if st.drained {
		res.Count("histories_drained", 1)
	}
	if st.waited {
		res.Count("histories_with_item_waiting_under_backpressure", 1)
	}
	if st.nontrivial() {
		res.Count("histories_nontrivial", 1)
		res.Seen(st.hash)
	}
}

func (c check) Replay(payload json.RawMessage) (*api.Violation, error) {
	var h History
	if err := json.Unmarshal(payload, &h); err != nil {
		return nil, err
	}
	if h.Kind != kindBuffered && h.Kind != kindSimple {
		return nil, fmt.Errorf("unknown bus kind %q", h.Kind)
	}
	if h.Kind == kindBuffered && (h.Q < 1 || h.B < 1) {
		return nil, fmt.Errorf("capacities must be >= 1")
	}
	kf := findings.Default()
	opts := execOpts{openKF: func(id string) bool { return kf.IsOpen("C14", id) }}
	h.Trace = nil
	v := execute(&h, c.f, opts).reported()
	if v == nil {
		return nil, nil
	}
	return &api.Violation{Property: "C14", Class: v.Class, Detail: v.Detail, Replay: payload, KnownFinding: v.KF}, nil
}

func (check) Describe() api.Description {
	return api.Description{
		Level: "exploration",
		Rule: "one run index = one history of <= 80 operations on one bus (7/8 BufferedBus with queueLength, bufferLength drawn independently from 1..4, 1-3 producers, 1-4 consumers; 1/8 SimpleBus), followed by a drain. " +
			"A history counts as non-trivial when at least one item waited >= 1 cycle under back-pressure (a producer refused by CanAdd/RemainingToAdd got its item in only in a later cycle, or a Connect left a ready item on the input side because the output side was full) " +
			"AND at least one fault operation took effect (Clean/Flush/DeleteLast removed something, Revert put an item back) or a Pick delivered an item. " +
			"Distinct = hash over (bus kind, capacities, every operation with its arguments and its outcome: ids added, item delivered, items moved by Connect, items removed).",
		Real: []string{"comp.BufferedBus[T] (NewBufferedBus, Add, Revert, DeleteLast, Get, Pick, Exists, CanGet, CanAdd, RemainingToAdd, PendingRead, IsEmpty, Connect, Clean, InLength, OutLength)",
			"comp.SimpleBus[T] (Add, Get, CanAdd, IsEmpty, Flush, Clean)"},
		Stub: []string{"fetch/decode/control/execute/write units: replaced by seeded producer tasks (CanAdd then Add; or CanAdd, RemainingToAdd, then that many Adds), consumer tasks (Get, Pick(id%m==r), Exists, CanGet, PendingRead, IsEmpty) and a clock task (Connect(cycle) first in every cycle, as CPU.Run)",
			"CPU.flush / fetch-unit clean: replaced by Clean (Flush on SimpleBus) at seeded points"},
		Assumptions: []string{
			"Protocol pinned from the callers (proc/mvp4 ... mvp8-0): CPU.Run calls Connect(cycle) on every bus before any unit runs, cycle numbers never decrease (they may repeat or skip: `Connect(cycle+1)` and `cycle += latency.Flush` in the flush path); a unit's CanAdd+Add, or CanAdd+RemainingToAdd+n*Add (control unit MVP-6.0), is one atomic step; Add is always called with the cycle of the last Connect.",
			"Units of one bus may run in any order inside a cycle (the statement quantifies over all interleavings); in CPU.Run the producer of a bus always runs before its consumers.",
			"Revert and DeleteLast have NO caller in this tree (grep over /repo, all 10 commits): their reading is taken from bus.go and the statement. Revert(item, c) is issued only by the consumer that took that item in cycle c; the item becomes visible again at the next Connect(>= c), behind what is already visible and in front of everything still on the input side. A reverted item does not count against the input capacity (there is no CanRevert), but CanAdd must then report no room.",
			"DeleteLast removes the most recently added item that is still on the input side; it is not issued while the last entry of the input side is a reverted item (left open by the statement).",
			"Visibility has a lower bound (not before a Connect with cycle >= c+1) from the statement; the reference model also expects the item AT that Connect if the output side has room (title: 'a cycle later'); a later arrival is reported as class late-delivery, never as lost-item.",
			"RemainingToAdd is compared clamped at 0 (its value for an over-full input side is left open).",
			"SimpleBus as in MVP-4/5: one producer, one consumer, one Get = one cycle; an item added after Get number n is delivered by Get n+2 at the earliest (never by the Get that directly follows the Add).",
			"The visible items are read in order through Exists with a never-matching, recording predicate after every operation (pure observation).",
		},
		FaultKinds: []string{"Clean", "Flush (SimpleBus)", "DeleteLast", "Revert (same cycle, by the taking consumer)", "Pick out of order", "back-pressure: slow consumers / full output side / full input side", "repeated and skipped Connect cycle numbers"},
	}
}
