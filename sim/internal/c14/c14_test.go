package c14

import (
	"encoding/json"
	"testing"

	"verifsim/internal/api"
	"verifsim/internal/rng"
)

// fakeBuf is an in-package BufferedBus with switchable defects; with no defect
// switched on it is a correct bus (CanAdd uses "<", so not even KF-C14-1).
type fakeBuf struct {
	q, b   int
	buffer []fakeEntry
	queue  []Item
	mut    string
}

type fakeEntry struct {
	avail int
	t     Item
}

func (f *fakeBuf) InLength() int  { return f.q }
func (f *fakeBuf) OutLength() int { return f.b }
func (f *fakeBuf) Clean() {
	f.buffer = nil
	if f.mut == "clean-keeps-queue" {
		return
	}
	f.queue = nil
}
func (f *fakeBuf) Add(t Item, c int) {
	if f.mut == "same-cycle" && len(f.queue) < f.q && len(f.buffer) == 0 {
		f.queue = append(f.queue, t) // visible in the cycle it was put
		return
	}
	av := c + 1
	if f.mut == "two-cycles" {
		av = c + 2
	}
	f.buffer = append(f.buffer, fakeEntry{av, t})
}
func (f *fakeBuf) Revert(t Item, c int) {
	if f.mut == "revert-to-back" {
		f.buffer = append(f.buffer, fakeEntry{c, t})
		return
	}
	f.buffer = append([]fakeEntry{{c, t}}, f.buffer...)
}
func (f *fakeBuf) DeleteLast() {
	if len(f.buffer) == 0 {
		return
	}
	if f.mut == "delete-first" {
		f.buffer = f.buffer[1:]
		return
	}
	f.buffer = f.buffer[:len(f.buffer)-1]
}
func (f *fakeBuf) Get() (Item, bool) {
	if len(f.queue) == 0 {
		return Item{}, false
	}
	if f.mut == "lifo" {
		e := f.queue[len(f.queue)-1]
		f.queue = f.queue[:len(f.queue)-1]
		return e, true
	}
	e := f.queue[0]
	if f.mut == "get-keeps" && e.ID%5 == 0 {
		return e, true // delivered twice
	}
	f.queue = f.queue[1:]
	return e, true
}
func (f *fakeBuf) Pick(p func(Item) bool) (Item, bool) {
	var out Item
	found := false
	var rest []Item
	for _, t := range f.queue {
		if p(t) && (!found || f.mut == "pick-all") {
			if !found {
				out = t
			}
			found = true
			continue
		}
		rest = append(rest, t)
	}
	f.queue = rest
	return out, found
}
func (f *fakeBuf) Exists(p func(Item) bool) bool {
	for _, t := range f.queue {
		if p(t) {
			return true
		}
	}
	return false
}
func (f *fakeBuf) CanGet() bool { return len(f.queue) != 0 }
func (f *fakeBuf) CanAdd() bool {
	switch f.mut {
	case "cap-off-by-one":
		return len(f.buffer) <= f.b
	case "kf1":
		return len(f.buffer) != f.b
	}
	return len(f.buffer) < f.b
}
func (f *fakeBuf) RemainingToAdd() int {
	if f.mut == "cap-off-by-one" {
		return f.b + 1 - len(f.buffer)
	}
	return f.b - len(f.buffer)
}
func (f *fakeBuf) PendingRead() int { return len(f.queue) }
func (f *fakeBuf) IsEmpty() bool    { return len(f.queue) == 0 && len(f.buffer) == 0 }
func (f *fakeBuf) Connect(c int) {
	limit := f.q
	if f.mut == "queue-off-by-one" {
		limit = f.q + 1
	}
	for len(f.buffer) > 0 && len(f.queue) < limit && f.buffer[0].avail <= c {
		if f.mut == "connect-drops" && f.buffer[0].t.ID%7 == 0 {
			f.buffer = f.buffer[1:]
			continue
		}
		f.queue = append(f.queue, f.buffer[0].t)
		f.buffer = f.buffer[1:]
	}
}

type fakeSim struct {
	pending, current *Item
	mut              string
}

func (f *fakeSim) Flush() { f.pending, f.current = nil, nil }
func (f *fakeSim) Clean() {
	f.pending = nil
	if f.mut == "s-clean-keeps-current" {
		return
	}
	f.current = nil
}
func (f *fakeSim) Get() (Item, bool) {
	if f.mut == "s-same-cycle" && f.current == nil && f.pending != nil {
		t := *f.pending
		f.pending = nil
		return t, true
	}
	var t Item
	ok := false
	if f.current != nil {
		t, ok = *f.current, true
	}
	f.current, f.pending = f.pending, nil
	return t, ok
}
func (f *fakeSim) CanAdd() bool {
	if f.mut == "s-canadd-always" {
		return true
	}
	return f.pending == nil
}
func (f *fakeSim) Add(t Item)    { f.pending = &t }
func (f *fakeSim) IsEmpty() bool { return f.pending == nil && f.current == nil }

func fakeFactory(mut string) factory {
	return factory{
		buffered: func(q, b int) bufBus { return &fakeBuf{q: q, b: b, mut: mut} },
		simple:   func() simBus { return &fakeSim{mut: mut} },
	}
}

func explore(t *testing.T, f factory, opts execOpts, n int) (classes map[string]int, first map[string]*History) {
	t.Helper()
	classes = map[string]int{}
	first = map[string]*History{}
	for i := 0; i < n; i++ {
		h := generate(rng.New(rng.Derive(12345, uint64(i))))
		if len(h.Ops) > maxOps {
			t.Fatalf("history %d has %d ops", i, len(h.Ops))
		}
		out := execute(h, f, opts)
		v := out.reported()
		if v == nil {
			if !out.st.drained {
				t.Fatalf("history %d: no violation but not drained", i)
			}
			continue
		}
		key := v.Class
		if v.KF != "" {
			key += "/" + v.KF
		}
		classes[key]++
		if first[key] == nil {
			first[key] = h
		}
	}
	return
}

func TestCorrectFakeHolds(t *testing.T) {
	classes, _ := explore(t, fakeFactory(""), execOpts{}, 20000)
	if len(classes) != 0 {
		t.Fatalf("false alarms on a correct bus: %v", classes)
	}
}

func TestSensitivity(t *testing.T) {
	cases := []struct{ mut, class string }{
		{"lifo", "order"},
		{"same-cycle", "early-visibility"},
		{"two-cycles", "late-delivery"},
		{"pick-all", "pick"},
		{"cap-off-by-one", "capacity"},
		{"queue-off-by-one", "capacity"},
		{"clean-keeps-queue", "clean-not-empty"},
		{"revert-to-back", "revert-order"},
		{"delete-first", "delete-last"},
		{"get-keeps", "duplicate-delivery"},
		{"connect-drops", "lost-item"},
		{"kf1", "capacity"},
		{"s-same-cycle", "early-visibility"},
		{"s-canadd-always", "capacity"},
		{"s-clean-keeps-current", "clean-not-empty"},
	}
	for _, tc := range cases {
		t.Run(tc.mut, func(t *testing.T) {
			f := fakeFactory(tc.mut)
			classes, first := explore(t, f, execOpts{}, 4000)
			if classes[tc.class] == 0 {
				t.Fatalf("defect %q not detected as %q: %v", tc.mut, tc.class, classes)
			}
			h := first[tc.class]
			v := execute(h, f, execOpts{}).reported()
			small := shrink(h, f, execOpts{}, v)
			sv := execute(small, f, execOpts{}).reported()
			if !sameVerdict(sv, v) {
				t.Fatalf("shrunk history lost the verdict: %+v vs %+v", sv, v)
			}
			if len(small.Ops) > len(h.Ops) || len(small.Ops) > 12 {
				t.Fatalf("not shrunk: %d -> %d ops", len(h.Ops), len(small.Ops))
			}
			// replay from JSON reproduces the same class; a correct bus passes it
			data, _ := json.Marshal(small)
			rv, err := check{f: f}.Replay(data)
			if err != nil || rv == nil || rv.Class != v.Class {
				t.Fatalf("replay: %v %+v", err, rv)
			}
			ok, err := check{f: fakeFactory("")}.Replay(data)
			if err != nil || ok != nil {
				t.Fatalf("correct bus fails the shrunk history: %v %+v", err, ok)
			}
			t.Logf("%s: %d/%d histories, classes %v, minimal %d ops q=%d b=%d: %v", tc.mut, classes[tc.class], 4000, classes, len(small.Ops), small.Q, small.B, small.Ops)
		})
	}
}

// The known finding is tagged only by its trigger; a different capacity defect
// stays untagged even while KF-C14-1 is open.
func TestKnownFindingTrigger(t *testing.T) {
	open := execOpts{openKF: func(id string) bool { return id == kfCanAddOverfull }}
	classes, _ := explore(t, fakeFactory("kf1"), open, 4000)
	if classes["capacity/"+kfCanAddOverfull] == 0 || len(classes) != 1 {
		t.Fatalf("kf1 fake with the finding open: %v", classes)
	}
	classes, _ = explore(t, fakeFactory("cap-off-by-one"), open, 4000)
	if classes["capacity"] == 0 {
		t.Fatalf("a different capacity defect must stay untagged: %v", classes)
	}
	classes, _ = explore(t, fakeFactory("lifo"), open, 4000)
	if classes["order"] == 0 {
		t.Fatalf("order defect hidden: %v", classes)
	}
}

func TestRealBusOnlyKnownFinding(t *testing.T) {
	open := execOpts{openKF: func(id string) bool { return id == kfCanAddOverfull }}
	classes, _ := explore(t, realFactory(), open, 20000)
	for k := range classes {
		if k != "capacity/"+kfCanAddOverfull {
			t.Fatalf("unexpected violation on the real bus: %v", classes)
		}
	}
	t.Logf("real bus: %v", classes)
}

func TestRunDeterministic(t *testing.T) {
	t.Setenv("VERIF_DIR", t.TempDir())
	c := New()
	b := api.Batch{Property: "C14", Tier: "quick", Seed: 99, From: 0, To: 3000}
	r1, r2 := c.Run(b), c.Run(b)
	j1, _ := json.Marshal(r1)
	j2, _ := json.Marshal(r2)
	if string(j1) != string(j2) || len(r1.Distinct) != len(r2.Distinct) {
		t.Fatal("two runs of the same batch differ")
	}
	// split batches merge to the same totals
	a := c.Run(api.Batch{Seed: 99, From: 0, To: 1500})
	a.Merge(c.Run(api.Batch{Seed: 99, From: 1500, To: 3000}), 3, 1000)
	if a.Evaluations != r1.Evaluations || len(a.Distinct) != len(r1.Distinct) || a.SimCycles != r1.SimCycles {
		t.Fatal("split batches differ from the whole")
	}
	for k, v := range r1.Counters {
		if k != "violations_not_written_out" && a.Counters[k] != v {
			t.Fatalf("counter %s: %d vs %d", k, a.Counters[k], v)
		}
	}
}

// Bounded-exhaustive part of the quantifier: every sequence of up to 6 steps
// over {connect(next cycle), add, get, pick(odd), revert, dellast, clean} after
// the initial Connect, capacities 1..2 x 1..2, on the real bus: nothing but the
// known finding.
func TestExhaustiveSmallRealBus(t *testing.T) {
	if testing.Short() {
		t.Skip()
	}
	alphabet := []Op{{K: opConnect}, {K: opAdd}, {K: opGet}, {K: opPick, M: 2, R: 1}, {K: opRevert}, {K: opDelLast}, {K: opClean}}
	open := execOpts{openKF: func(id string) bool { return id == kfCanAddOverfull }}
	f := realFactory()
	const k = 6
	n, kfHits := 0, 0
	idx := make([]int, k)
	for q := 1; q <= 2; q++ {
		for b := 1; b <= 2; b++ {
			for length := 1; length <= k; length++ {
				for i := range idx {
					idx[i] = 0
				}
				for {
					h := &History{Kind: kindBuffered, Q: q, B: b, Prod: 1, Cons: 1, Ops: []Op{{K: opConnect, C: 1}}}
					cycle := 1
					for _, a := range idx[:length] {
						op := alphabet[a]
						if op.K == opConnect {
							cycle++
							op.C = cycle
						}
						h.Ops = append(h.Ops, op)
					}
					out := execute(h, f, open)
					n++
					if v := out.reported(); v != nil {
						if v.KF != kfCanAddOverfull {
							t.Fatalf("q=%d b=%d %v: %+v", q, b, h.Ops, v)
						}
						kfHits++
					} else if !out.st.drained {
						t.Fatalf("not drained: %v", h.Ops)
					}
					j := 0
					for ; j < length; j++ {
						idx[j]++
						if idx[j] < len(alphabet) {
							break
						}
						idx[j] = 0
					}
					if j == length {
						break
					}
				}
			}
		}
	}
	t.Logf("%d histories, %d hit %s", n, kfHits, kfCanAddOverfull)
}
