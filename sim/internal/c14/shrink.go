package c14

// Shrinking: ddmin over the op list, then lower capacities, fewer tasks, dense
// cycle numbers, while the same violation class (and the same known-finding
// tag) persists. Every op is guarded by the executor (an add obeys CanAdd, a
// revert needs an item taken in this cycle, ...), so every sub-history still
// follows the protocol.

func sameVerdict(a, b *violation) bool {
	return a != nil && b != nil && a.Class == b.Class && a.KF == b.KF
}

func shrink(h *History, f factory, opts execOpts, target *violation) *History {
	opts.trace = false
	budget := 4000
	holds := func(c *History) bool {
		if budget <= 0 {
			return false
		}
		budget--
		return sameVerdict(execute(c, f, opts).reported(), target)
	}
	best := h.clone()
	// everything after the failing op is irrelevant
	if target.OpIndex+1 < len(best.Ops) {
		c := best.clone()
		c.Ops = c.Ops[:target.OpIndex+1]
		if holds(c) {
			best = c
		}
	}
	for round := 0; round < 3; round++ {
		before := len(best.Ops) + best.Q + best.B + best.Prod + best.Cons
		best = ddmin(best, holds)
		best = lowerCaps(best, holds)
		best = fewerTasks(best, holds)
		best = denseCycles(best, holds)
		if len(best.Ops)+best.Q+best.B+best.Prod+best.Cons == before {
			break
		}
	}
	annotate(best, f, opts)
	return best
}

func ddmin(h *History, holds0 func(*History) bool) *History {
	// a BufferedBus history keeps starting with the clock's Connect, as CPU.Run does
	holds := func(c *History) bool {
		if h.Kind == kindBuffered && (len(c.Ops) == 0 || c.Ops[0].K != opConnect) {
			return false
		}
		return holds0(c)
	}
	cur := h
	n := 2
	for len(cur.Ops) >= 1 {
		if n > len(cur.Ops) {
			n = len(cur.Ops)
		}
		chunk := (len(cur.Ops) + n - 1) / n
		reduced := false
		for start := 0; start < len(cur.Ops); start += chunk {
			end := min(start+chunk, len(cur.Ops))
			c := cur.clone()
			c.Ops = append(append([]Op(nil), cur.Ops[:start]...), cur.Ops[end:]...)
			if holds(c) {
				cur = c
				n = max(n-1, 2)
				reduced = true
				break
			}
		}
		if !reduced {
			if chunk == 1 {
				break
			}
			n = min(n*2, len(cur.Ops))
		}
	}
	return cur
}

func lowerCaps(h *History, holds func(*History) bool) *History {
	cur := h
	if cur.Kind != kindBuffered {
		return cur
	}
	for changed := true; changed; {
		changed = false
		if cur.Q > 1 {
			c := cur.clone()
			c.Q--
			if holds(c) {
				cur, changed = c, true
			}
		}
		if cur.B > 1 {
			c := cur.clone()
			c.B--
			if holds(c) {
				cur, changed = c, true
			}
		}
	}
	return cur
}

func isProducerOp(k string) bool { return k == opAdd || k == opAddRem }
func isConsumerOp(k string) bool {
	switch k {
	case opGet, opPick, opExists, opCanGet, opPending, opRevert:
		return true
	}
	return false
}

func fewerTasks(h *History, holds func(*History) bool) *History {
	cur := h
	for _, np := range []int{1, 2} {
		if np >= cur.Prod {
			break
		}
		c := cur.clone()
		for i := range c.Ops {
			if isProducerOp(c.Ops[i].K) {
				c.Ops[i].T %= np
			}
		}
		c.Prod = np
		if holds(c) {
			cur = c
			break
		}
	}
	for _, nc := range []int{1, 2, 3} {
		if nc >= cur.Cons {
			break
		}
		c := cur.clone()
		for i := range c.Ops {
			if isConsumerOp(c.Ops[i].K) {
				c.Ops[i].T %= nc
			}
		}
		c.Cons = nc
		if holds(c) {
			cur = c
			break
		}
	}
	return cur
}

func denseCycles(h *History, holds func(*History) bool) *History {
	if h.Kind != kindBuffered {
		return h
	}
	c := h.clone()
	next, last := 0, -1<<30
	for i := range c.Ops {
		if c.Ops[i].K != opConnect {
			continue
		}
		if c.Ops[i].C != last {
			last = c.Ops[i].C
			next++
		}
		c.Ops[i].C = next
	}
	if holds(c) {
		return c
	}
	return h
}

// annotate rewrites the informational cycle of every op to the one the executor
// uses and attaches the trace of the execution.
func annotate(h *History, f factory, opts execOpts) {
	cur, gets := 0, 0
	for i := range h.Ops {
		op := &h.Ops[i]
		if h.Kind == kindSimple {
			op.C = gets
			if op.K == opGet {
				gets++
			}
			continue
		}
		if op.K == opConnect {
			if op.C > cur {
				cur = op.C
			}
		}
		op.C = cur
	}
	opts.trace = true
	h.Trace = execute(h, f, opts).trace
}
