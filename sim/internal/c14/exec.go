package c14

import (
	"fmt"
	"strings"
)

// Known findings of C14 (see Describe and the report). The trigger is evaluated
// on the live execution, never on the class alone.
const (
	// KF-C14-1: BufferedBus.CanAdd() answers true while the input buffer holds
	// MORE than bufferLength entries (possible only after Revert put an item back
	// in front of a full input buffer): `len(buffer) != bufferLength`.
	kfCanAddOverfull = "KF-C14-1"
)

type violation struct {
	Class   string
	Detail  string
	KF      string
	OpIndex int
}

type stats struct {
	ops            [16]int64
	addRefused     int64
	connectBlocked int64
	faultClean     int64
	faultDelLast   int64
	faultRevert    int64
	faultFlush     int64
	faultNoop      int64
	pickHit        int64
	pickMiss       int64
	delivered      int64
	cycles         int64
	kfHits         int64
	waited         bool
	faulted        bool
	drained        bool
	hash           uint64
}

func (s *stats) nontrivial() bool { return s.waited && s.faulted }

type execOpts struct {
	openKF func(id string) bool
	trace  bool
}

type outcome struct {
	viol  *violation // first violation that is not a tolerated known finding
	kf    *violation // first tolerated known finding
	st    stats
	trace []string
}

// reported is the verdict of the history: a fresh violation wins over a known one.
func (o *outcome) reported() *violation {
	if o.viol != nil {
		return o.viol
	}
	return o.kf
}

func hmix(h uint64, vs ...int) uint64 {
	for _, v := range vs {
		h ^= uint64(int64(v)) + 0x9e3779b97f4a7c15
		h *= 1099511628211
		h ^= h >> 29
	}
	return h
}

// execute runs one history against a fresh bus and the reference model.
func execute(h *History, f factory, opts execOpts) (out *outcome) {
	out = &outcome{}
	out.st.hash = hmix(1469598103934665603, len(h.Kind), h.Q, h.B)
	if h.Kind == kindSimple {
		e := &sexec{h: h, opts: opts, out: out}
		e.run(f)
		return out
	}
	e := &bexec{h: h, opts: opts, out: out}
	e.run(f)
	return out
}

// ---------------------------------------------------------------- BufferedBus

const (
	stInside int8 = iota
	stDelivered
	stCleaned
	stDeleted
)

type idInfo struct {
	addCycle int
	revCycle int
	state    int8
	reverted bool // put back by Revert, waiting to be delivered again
	visOK    bool // a Connect late enough to make it visible happened since it went in
	prod     int
	cons     int
	deliv    int // deliveries
	revs     int // reverts
}

type mEntry struct {
	id    int
	avail int
	rev   bool
}

type held struct {
	id    int
	cycle int
	ok    bool
}

type bexec struct {
	h    *History
	opts execOpts
	out  *outcome
	bus  bufBus

	// reference model: FIFO with one cycle of latency
	buf []mEntry // input side, not visible
	q   []mEntry // output side, visible to consumers

	ids     []idInfo
	held    []held
	refused []int // per producer: cycle of the first refused add of its current item, -1 none
	cur     int
	opIdx   int
	op      Op
	fn      string
	stop    bool
	snap    []int
}

func (e *bexec) tracef(format string, a ...any) {
	if e.opts.trace {
		e.out.trace = append(e.out.trace, fmt.Sprintf("c%d ", e.cur)+fmt.Sprintf(format, a...))
	}
}

func (e *bexec) fail(class, format string, a ...any) {
	if e.out.viol == nil {
		e.out.viol = &violation{Class: class, Detail: fmt.Sprintf("op %d (cycle %d): ", e.opIdx, e.cur) + fmt.Sprintf(format, a...), OpIndex: e.opIdx}
		if e.opts.trace {
			e.out.trace = append(e.out.trace, fmt.Sprintf("c%d %s   <-- VIOLATION %s", e.cur, e.op, class))
		}
	}
	e.stop = true
}

// known reports a mismatch that matches the trigger of a known finding. It
// returns true when the finding is open: the mismatch is noted and the run goes
// on with the model's answer, so that a different breakage later in the same
// history is still reported.
func (e *bexec) known(id, class, format string, a ...any) bool {
	if e.opts.openKF != nil && e.opts.openKF(id) {
		e.out.st.kfHits++
		if e.out.kf == nil {
			e.out.kf = &violation{Class: class, KF: id, Detail: fmt.Sprintf("op %d (cycle %d): ", e.opIdx, e.cur) + fmt.Sprintf(format, a...), OpIndex: e.opIdx}
			if e.opts.trace {
				e.out.trace = append(e.out.trace, fmt.Sprintf("c%d %s   <-- known finding %s (%s)", e.cur, e.op, id, class))
			}
		}
		return true
	}
	e.fail(class, format+" [trigger of "+id+"]", a...)
	return false
}

func (e *bexec) run(f factory) {
	defer func() {
		if r := recover(); r != nil {
			e.out.viol = &violation{Class: "panic:" + e.fn, Detail: fmt.Sprintf("op %d (cycle %d): %s panicked: %v", e.opIdx, e.cur, e.fn, r), OpIndex: e.opIdx}
		}
	}()
	h := e.h
	e.fn = "NewBufferedBus"
	e.bus = f.buffered(h.Q, h.B)
	e.ids = make([]idInfo, 1, 64)
	e.held = make([]held, max(h.Cons, 1))
	e.refused = make([]int, max(h.Prod, 1))
	for i := range e.refused {
		e.refused[i] = -1
	}
	e.fn = "BufferedBus.InLength"
	_ = e.bus.InLength()
	e.fn = "BufferedBus.OutLength"
	_ = e.bus.OutLength()
	for i, op := range h.Ops {
		e.opIdx = i
		e.step(op)
		if e.stop {
			return
		}
	}
	// drain: the clock keeps ticking, consumer 0 takes everything
	limit := len(e.ids) + 4
	for k := 0; k < limit && (len(e.buf) > 0 || len(e.q) > 0); k++ {
		e.opIdx = len(h.Ops)
		e.step(Op{K: opConnect, C: e.cur + 1})
		for len(e.q) > 0 && !e.stop {
			e.step(Op{K: opGet})
		}
		if e.stop {
			return
		}
	}
	if len(e.buf) > 0 || len(e.q) > 0 {
		e.fail("lost-item", "reference model did not drain (harness error)")
		return
	}
	e.fn = "BufferedBus.IsEmpty"
	if !e.bus.IsEmpty() {
		e.fail("lost-item", "bus not empty after every added item was delivered or removed")
		return
	}
	for id := 1; id < len(e.ids); id++ {
		in := &e.ids[id]
		net := in.deliv - in.revs
		switch {
		case in.state == stDelivered && net != 1:
			e.fail("duplicate-delivery", "item #%d: %d deliveries, %d reverts", id, in.deliv, in.revs)
		case in.state != stDelivered && net != 0:
			e.fail("duplicate-delivery", "removed item #%d: %d deliveries, %d reverts", id, in.deliv, in.revs)
		}
		if e.stop {
			return
		}
	}
	e.out.st.drained = true
}

func predOf(m, r int) func(int) bool {
	if m <= 1 {
		return func(int) bool { return true }
	}
	return func(id int) bool { return id%m == r }
}

func (e *bexec) task(t, n int) int {
	if t < 0 || t >= n {
		return 0
	}
	return t
}

func (e *bexec) step(op Op) {
	e.op = op
	st := &e.out.st
	code := opCodes[op.K]
	st.ops[code]++
	switch op.K {
	case opConnect:
		if op.C > e.cur {
			e.cur = op.C // cycles never run backwards
		}
		st.cycles++
		e.fn = "BufferedBus.Connect"
		e.bus.Connect(e.cur)
		moved := 0
		if len(e.q) != e.h.Q {
			for len(e.buf) > 0 && len(e.q) < e.h.Q && e.buf[0].avail <= e.cur {
				e.q = append(e.q, e.buf[0])
				e.buf = e.buf[1:]
				moved++
			}
		}
		if len(e.buf) > 0 && e.buf[0].avail <= e.cur {
			// ready but the output side is full: it waits at least one more cycle
			st.connectBlocked++
			st.waited = true
		}
		for id := 1; id < len(e.ids); id++ {
			in := &e.ids[id]
			if in.state != stInside || in.visOK {
				continue
			}
			if (in.reverted && e.cur >= in.revCycle) || (!in.reverted && e.cur >= in.addCycle+1) {
				in.visOK = true
			}
		}
		st.hash = hmix(st.hash, int(code), e.cur, moved)
		e.tracef("connect(%d): %d moved to the output side; %s", e.cur, moved, e.show())
	case opAdd:
		p := e.task(op.T, len(e.refused))
		room := e.canAdd(true)
		if e.stop {
			return
		}
		if !room {
			e.refuse(p)
			st.hash = hmix(st.hash, int(code), p, 0)
			e.tracef("P%d CanAdd=false: waits", p)
			break
		}
		id := e.add(p)
		st.hash = hmix(st.hash, int(code), p, id)
		e.tracef("P%d CanAdd=true, Add(#%d, %d)", p, id, e.cur)
	case opAddRem:
		p := e.task(op.T, len(e.refused))
		room := e.canAdd(true)
		if e.stop {
			return
		}
		if !room {
			e.refuse(p)
			st.hash = hmix(st.hash, int(code), p, 0)
			e.tracef("P%d CanAdd=false: waits", p)
			break
		}
		e.fn = "BufferedBus.RemainingToAdd"
		got := e.bus.RemainingToAdd()
		want := e.h.B - len(e.buf)
		if got != want {
			e.fail("capacity", "RemainingToAdd()=%d with %d of %d input slots used", got, len(e.buf), e.h.B)
			return
		}
		n := min(op.N, want)
		first := len(e.ids)
		for i := 0; i < n; i++ {
			e.add(p)
		}
		if n < op.N {
			e.refuse(p)
		}
		st.hash = hmix(st.hash, int(code), p, n, first)
		e.tracef("P%d RemainingToAdd=%d, adds %d item(s) from #%d", p, got, n, first)
	case opGet:
		c := e.task(op.T, len(e.held))
		e.fn = "BufferedBus.Get"
		it, ok := e.bus.Get()
		want := -1
		if len(e.q) > 0 {
			want = 0
		}
		e.take(op, c, it, ok, want)
		if e.stop {
			return
		}
		st.hash = hmix(st.hash, int(code), c, it.ID)
		e.tracef("C%d Get -> %s", c, showItem(it, ok))
	case opPick:
		c := e.task(op.T, len(e.held))
		p := predOf(op.M, op.R)
		e.fn = "BufferedBus.Pick"
		it, ok := e.bus.Pick(func(i Item) bool { return p(i.ID) })
		want := -1
		for i, m := range e.q {
			if p(m.id) {
				want = i
				break
			}
		}
		e.take(op, c, it, ok, want)
		if e.stop {
			return
		}
		if ok {
			st.pickHit++
			st.faulted = true
		} else {
			st.pickMiss++
		}
		st.hash = hmix(st.hash, int(code), c, op.M, op.R, it.ID)
		e.tracef("C%d Pick(id%%%d==%d) -> %s", c, op.M, op.R, showItem(it, ok))
	case opExists:
		p := predOf(op.M, op.R)
		e.fn = "BufferedBus.Exists"
		got := e.bus.Exists(func(i Item) bool { return p(i.ID) })
		want := false
		for _, m := range e.q {
			if p(m.id) {
				want = true
			}
		}
		if got != want {
			e.fail("observer:Exists", "Exists(id%%%d==%d)=%v, visible items %v", op.M, op.R, got, e.qIDs())
			return
		}
		st.hash = hmix(st.hash, int(code), op.M, op.R, b2i(got))
	case opCanGet, opPending, opIsEmpty, opCanAdd, opRemaining:
		// all of them are part of the probe below
		st.hash = hmix(st.hash, int(code), len(e.q), len(e.buf))
	case opRevert:
		c := e.task(op.T, len(e.held))
		hd := e.held[c]
		if !hd.ok || hd.cycle != e.cur || e.ids[hd.id].state != stDelivered {
			st.faultNoop++
			st.hash = hmix(st.hash, int(code), c, 0)
			break // nothing taken in this cycle: the unit has nothing to put back
		}
		e.held[c].ok = false
		in := &e.ids[hd.id]
		e.fn = "BufferedBus.Revert"
		e.bus.Revert(Item{ID: hd.id, Prod: in.prod}, e.cur)
		e.buf = append([]mEntry{{id: hd.id, avail: e.cur, rev: true}}, e.buf...)
		in.state, in.reverted, in.visOK, in.revCycle = stInside, true, false, e.cur
		in.revs++
		st.faultRevert++
		st.faulted = true
		st.hash = hmix(st.hash, int(code), c, hd.id)
		e.tracef("C%d Revert(#%d, %d); %s", c, hd.id, e.cur, e.show())
	case opDelLast:
		if n := len(e.buf); n > 0 && e.buf[n-1].rev {
			// only reverted items wait on the input side: what DeleteLast means
			// then is left open by the statement, so the tasks do not do it
			st.faultNoop++
			st.hash = hmix(st.hash, int(code), -1)
			break
		}
		e.fn = "BufferedBus.DeleteLast"
		e.bus.DeleteLast()
		id := 0
		if n := len(e.buf); n > 0 {
			id = e.buf[n-1].id
			e.buf = e.buf[:n-1]
			e.ids[id].state = stDeleted
			st.faultDelLast++
			st.faulted = true
		} else {
			st.faultNoop++
		}
		st.hash = hmix(st.hash, int(code), id)
		e.tracef("DeleteLast (removes #%d); %s", id, e.show())
	case opClean:
		e.fn = "BufferedBus.Clean"
		e.bus.Clean()
		n := len(e.buf) + len(e.q)
		for _, m := range e.buf {
			e.ids[m.id].state = stCleaned
		}
		for _, m := range e.q {
			e.ids[m.id].state = stCleaned
		}
		e.buf, e.q = e.buf[:0], e.q[:0]
		if n > 0 {
			st.faultClean++
			st.faulted = true
		} else {
			st.faultNoop++
		}
		st.hash = hmix(st.hash, int(code), n)
		e.tracef("Clean (removes %d)", n)
	default:
		// op of the other bus kind: ignored
		return
	}
	e.probe(op.K)
}

func b2i(b bool) int {
	if b {
		return 1
	}
	return 0
}

func showItem(it Item, ok bool) string {
	if !ok {
		return "nothing"
	}
	return fmt.Sprintf("#%d", it.ID)
}

func (e *bexec) qIDs() []int {
	out := make([]int, len(e.q))
	for i, m := range e.q {
		out[i] = m.id
	}
	return out
}

func (e *bexec) show() string {
	var sb strings.Builder
	sb.WriteString("model out=[")
	for i, m := range e.q {
		if i > 0 {
			sb.WriteByte(' ')
		}
		fmt.Fprintf(&sb, "#%d", m.id)
	}
	sb.WriteString("] in=[")
	for i, m := range e.buf {
		if i > 0 {
			sb.WriteByte(' ')
		}
		fmt.Fprintf(&sb, "#%d@%d", m.id, m.avail)
		if m.rev {
			sb.WriteByte('r')
		}
	}
	sb.WriteString("]")
	return sb.String()
}

func (e *bexec) refuse(p int) {
	e.out.st.addRefused++
	if e.refused[p] < 0 {
		e.refused[p] = e.cur
	}
}

// canAdd is the producer's guard (guard=true) or the observation made after
// every op (guard=false). The reference: there is room while fewer than
// bufferLength entries wait on the input side. While the input side is
// over-full (a reverted item was put in front of a full input buffer, there is
// no CanRevert) the answer only matters when a producer acts on it, so it is
// judged in the guard only.
func (e *bexec) canAdd(guard bool) bool {
	e.fn = "BufferedBus.CanAdd"
	got := e.bus.CanAdd()
	want := len(e.buf) < e.h.B
	if got == want {
		return want
	}
	if got && len(e.buf) > e.h.B {
		if !guard {
			return want
		}
		// trigger of KF-C14-1: a producer is told there is room although the
		// input side already holds more than its capacity
		e.fn = "BufferedBus.RemainingToAdd"
		rem := e.bus.RemainingToAdd()
		e.known(kfCanAddOverfull, "capacity", "producer sees CanAdd()=true (RemainingToAdd()=%d) while %d entries wait on an input side of capacity %d, after a reverted item was put in front of a full input buffer: obeying CanAdd it adds entry %d, and CanAdd stays true for every further Add; %s", rem, len(e.buf), e.h.B, len(e.buf)+1, e.show())
		return want
	}
	if got {
		e.fail("capacity", "CanAdd()=true although the input side is full (%d of %d); %s", len(e.buf), e.h.B, e.show())
	} else {
		e.fail("capacity", "CanAdd()=false although only %d of %d input slots are used; %s", len(e.buf), e.h.B, e.show())
	}
	return want
}

func (e *bexec) add(p int) int {
	id := len(e.ids)
	e.ids = append(e.ids, idInfo{addCycle: e.cur, state: stInside, prod: p, cons: -1})
	e.fn = "BufferedBus.Add"
	e.bus.Add(Item{ID: id, Prod: p}, e.cur)
	e.buf = append(e.buf, mEntry{id: id, avail: e.cur + 1})
	if r := e.refused[p]; r >= 0 {
		if r < e.cur {
			e.out.st.waited = true // held back by back-pressure for at least a cycle
		}
		e.refused[p] = -1
	}
	return id
}

// take compares a Get/Pick result with the model (wantIdx: index in the model's
// output side, -1 = nothing) and classifies a mismatch by the history.
func (e *bexec) take(op Op, c int, it Item, ok bool, wantIdx int) {
	isPick := op.K == opPick
	name := "Get"
	if isPick {
		name = fmt.Sprintf("Pick(id%%%d==%d)", op.M, op.R)
	}
	wantID := 0
	if wantIdx >= 0 {
		wantID = e.q[wantIdx].id
	}
	if ok {
		if it.ID <= 0 || it.ID >= len(e.ids) {
			e.fail("phantom-item", "%s delivered #%d which was never added", name, it.ID)
			return
		}
		in := &e.ids[it.ID]
		switch {
		case in.state == stDelivered:
			e.fail("duplicate-delivery", "%s delivered #%d again (already delivered to consumer %d)", name, it.ID, in.cons)
		case in.state == stCleaned:
			e.fail("clean-not-empty", "%s delivered #%d which was on the bus when Clean was called", name, it.ID)
		case in.state == stDeleted:
			e.fail("delete-last", "%s delivered #%d which DeleteLast had removed", name, it.ID)
		case !in.visOK && !in.reverted:
			e.fail("early-visibility", "%s delivered #%d, added in cycle %d, with no Connect(>=%d) since", name, it.ID, in.addCycle, in.addCycle+1)
		case !in.visOK:
			e.fail("revert-order", "%s delivered reverted #%d before a Connect(>=%d)", name, it.ID, in.revCycle)
		case isPick && !predOf(op.M, op.R)(it.ID):
			e.fail("pick", "%s delivered #%d which does not match", name, it.ID)
		case wantIdx < 0 && isPick:
			e.fail("pick", "%s delivered #%d, model: no visible match in %v", name, it.ID, e.qIDs())
		case wantIdx < 0:
			e.fail("capacity", "%s delivered #%d while the model keeps it on the input side (output side full at the last Connect); %s", name, it.ID, e.show())
		case it.ID != wantID && isPick:
			e.fail("pick", "%s delivered #%d, the first visible match is #%d in %v", name, it.ID, wantID, e.qIDs())
		case it.ID != wantID && (in.reverted || e.ids[wantID].reverted):
			e.fail("revert-order", "%s delivered #%d, expected #%d; %s", name, it.ID, wantID, e.show())
		case it.ID != wantID:
			e.fail("order", "%s delivered #%d, expected #%d (add order); %s", name, it.ID, wantID, e.show())
		}
		if e.stop {
			return
		}
		e.q = append(e.q[:wantIdx:wantIdx], e.q[wantIdx+1:]...)
		in.state, in.reverted, in.cons = stDelivered, false, c
		in.deliv++
		e.held[c] = held{id: it.ID, cycle: e.cur, ok: true}
		e.out.st.delivered++
		return
	}
	if wantIdx >= 0 {
		if isPick {
			e.fail("pick", "%s found nothing, #%d is visible and matches; visible %v", name, wantID, e.qIDs())
			return
		}
		cls := e.missing(wantID)
		e.fail(cls, "%s delivered nothing, #%d is due (%s); %s", name, wantID, cls, e.show())
	}
}

// missing decides between "late" and "lost" for an item the model says is
// visible but the bus does not deliver: the real bus alone is clocked and
// drained. (The history ends here, so the bus may be consumed.)
func (e *bexec) missing(id int) string {
	n := len(e.ids) + e.h.Q + e.h.B + 4
	for k := 1; k <= n; k++ {
		e.fn = "BufferedBus.Connect"
		e.bus.Connect(e.cur + k)
		for j := 0; j < n; j++ {
			e.fn = "BufferedBus.Get"
			it, ok := e.bus.Get()
			if !ok {
				break
			}
			if it.ID == id {
				return "late-delivery"
			}
		}
	}
	return "lost-item"
}

func ctxClass(ctx, dflt string) string {
	switch ctx {
	case opPick:
		return "pick"
	case opClean:
		return "clean-not-empty"
	case opDelLast:
		return "delete-last"
	case opRevert:
		return "revert-order"
	}
	return dflt
}

// probe compares everything the bus lets a unit observe with the model, after
// every op. The visible items are read, in order, through Exists with a
// predicate that never matches.
func (e *bexec) probe(ctx string) {
	if e.stop {
		return
	}
	e.snap = e.snap[:0]
	e.fn = "BufferedBus.Exists"
	e.bus.Exists(func(i Item) bool { e.snap = append(e.snap, i.ID); return false })
	same := len(e.snap) == len(e.q)
	if same {
		for i, m := range e.q {
			if e.snap[i] != m.id {
				same = false
			}
		}
	}
	if !same {
		e.classifySnapshot(ctx)
		return
	}
	e.fn = "BufferedBus.PendingRead"
	if got := e.bus.PendingRead(); got != len(e.q) {
		cls := "observer:PendingRead"
		if got > e.h.Q {
			cls = "capacity"
		}
		e.fail(ctxClass(ctx, cls), "PendingRead()=%d, %d item(s) visible", got, len(e.q))
		return
	}
	e.fn = "BufferedBus.CanGet"
	if got := e.bus.CanGet(); got != (len(e.q) > 0) {
		e.fail(ctxClass(ctx, "observer:CanGet"), "CanGet()=%v, %d item(s) visible", got, len(e.q))
		return
	}
	e.fn = "BufferedBus.IsEmpty"
	if got := e.bus.IsEmpty(); got != (len(e.q) == 0 && len(e.buf) == 0) {
		cls := "observer:IsEmpty"
		if got {
			cls = "lost-item"
		}
		e.fail(ctxClass(ctx, cls), "IsEmpty()=%v; %s", got, e.show())
		return
	}
	e.fn = "BufferedBus.RemainingToAdd"
	got, want := max(e.bus.RemainingToAdd(), 0), max(e.h.B-len(e.buf), 0)
	if got != want {
		e.fail(ctxClass(ctx, "capacity"), "RemainingToAdd()=%d, expected %d; %s", got, want, e.show())
		return
	}
	e.canAdd(false)
}

func (e *bexec) classifySnapshot(ctx string) {
	inModel := map[int]bool{}
	for _, m := range e.q {
		inModel[m.id] = true
	}
	seen := map[int]bool{}
	detail := fmt.Sprintf("visible on the bus %v; %s", e.snap, e.show())
	if len(e.snap) > e.h.Q {
		e.fail(ctxClass(ctx, "capacity"), "output side holds %d > queueLength %d; %s", len(e.snap), e.h.Q, detail)
		return
	}
	for _, id := range e.snap {
		if seen[id] {
			e.fail(ctxClass(ctx, "duplicate-delivery"), "#%d is on the bus twice; %s", id, detail)
			return
		}
		seen[id] = true
		if inModel[id] {
			continue
		}
		if id <= 0 || id >= len(e.ids) {
			e.fail(ctxClass(ctx, "phantom-item"), "#%d was never added; %s", id, detail)
			return
		}
		in := &e.ids[id]
		switch in.state {
		case stDelivered:
			e.fail(ctxClass(ctx, "duplicate-delivery"), "#%d was delivered to consumer %d and is still visible; %s", id, in.cons, detail)
		case stCleaned:
			e.fail("clean-not-empty", "#%d survived Clean; %s", id, detail)
		case stDeleted:
			e.fail("delete-last", "#%d survived DeleteLast; %s", id, detail)
		default:
			switch {
			case !in.visOK && !in.reverted:
				e.fail(ctxClass(ctx, "early-visibility"), "#%d added in cycle %d is visible with no Connect(>=%d) since; %s", id, in.addCycle, in.addCycle+1, detail)
			case !in.visOK:
				e.fail("revert-order", "reverted #%d is visible before a Connect(>=%d); %s", id, in.revCycle, detail)
			default:
				continue // legitimately visible by the clock; judged below
			}
		}
		return
	}
	for _, m := range e.q {
		if !seen[m.id] {
			cls := ctxClass(ctx, "")
			if cls == "" && m.rev {
				cls = "revert-order"
			}
			if cls == "" {
				cls = e.missing(m.id)
			}
			e.fail(cls, "#%d should be visible and is not (%s); %s", m.id, cls, detail)
			return
		}
	}
	for _, id := range e.snap {
		if inModel[id] {
			continue
		}
		cls := "capacity"
		for _, m := range e.buf {
			if m.id == id {
				break
			}
			if m.rev {
				cls = "revert-order" // it overtook a reverted item
			}
		}
		e.fail(ctxClass(ctx, cls), "#%d is visible, the model keeps it on the input side; %s", id, detail)
		return
	}
	cls := "order"
	for _, m := range e.q {
		if m.rev {
			cls = "revert-order"
		}
	}
	e.fail(ctxClass(ctx, cls), "visible items in the wrong order; %s", detail)
}

// ------------------------------------------------------------------ SimpleBus

type sInfo struct {
	addGets int
	state   int8
	deliv   int
}

type sexec struct {
	h    *History
	opts execOpts
	out  *outcome
	bus  simBus

	pending, current int // model: 0 = none
	gets             int // one Get == one cycle
	ids              []sInfo
	refused          int
	opIdx            int
	op               Op
	fn               string
	stop             bool
}

func (e *sexec) tracef(format string, a ...any) {
	if e.opts.trace {
		e.out.trace = append(e.out.trace, fmt.Sprintf("g%d ", e.gets)+fmt.Sprintf(format, a...))
	}
}

func (e *sexec) fail(class, format string, a ...any) {
	if e.out.viol == nil {
		e.out.viol = &violation{Class: class, Detail: fmt.Sprintf("op %d (after %d Gets): ", e.opIdx, e.gets) + fmt.Sprintf(format, a...), OpIndex: e.opIdx}
		if e.opts.trace {
			e.out.trace = append(e.out.trace, fmt.Sprintf("g%d %s   <-- VIOLATION %s", e.gets, e.op.K, class))
		}
	}
	e.stop = true
}

func (e *sexec) show() string {
	return fmt.Sprintf("model pending=#%d current=#%d", e.pending, e.current)
}

func (e *sexec) run(f factory) {
	defer func() {
		if r := recover(); r != nil {
			e.out.viol = &violation{Class: "panic:" + e.fn, Detail: fmt.Sprintf("op %d: %s panicked: %v", e.opIdx, e.fn, r), OpIndex: e.opIdx}
		}
	}()
	e.fn = "SimpleBus"
	e.bus = f.simple()
	e.ids = make([]sInfo, 1, 32)
	e.refused = -1
	for i, op := range e.h.Ops {
		e.opIdx = i
		e.step(op)
		if e.stop {
			return
		}
	}
	for k := 0; k < 3 && (e.pending != 0 || e.current != 0); k++ {
		e.opIdx = len(e.h.Ops)
		e.step(Op{K: opGet})
		if e.stop {
			return
		}
	}
	e.fn = "SimpleBus.IsEmpty"
	if !e.bus.IsEmpty() {
		e.fail("lost-item", "bus not empty after the drain")
		return
	}
	for id := 1; id < len(e.ids); id++ {
		in := e.ids[id]
		if (in.state == stDelivered) != (in.deliv == 1) || in.deliv > 1 {
			e.fail("duplicate-delivery", "item #%d delivered %d times", id, in.deliv)
			return
		}
		if in.state == stInside {
			e.fail("lost-item", "item #%d never delivered", id)
			return
		}
	}
	e.out.st.drained = true
}

func (e *sexec) step(op Op) {
	e.op = op
	st := &e.out.st
	code := opCodes[op.K]
	st.ops[code]++
	ctx := op.K
	switch op.K {
	case opAdd:
		e.fn = "SimpleBus.CanAdd"
		got := e.bus.CanAdd()
		want := e.pending == 0
		if got != want {
			e.fail("capacity", "CanAdd()=%v; %s", got, e.show())
			return
		}
		if !want {
			st.addRefused++
			if e.refused < 0 {
				e.refused = e.gets
			}
			st.hash = hmix(st.hash, int(code), 0)
			e.tracef("CanAdd=false: waits")
			break
		}
		id := len(e.ids)
		e.ids = append(e.ids, sInfo{addGets: e.gets})
		e.fn = "SimpleBus.Add"
		e.bus.Add(Item{ID: id})
		e.pending = id
		if e.refused >= 0 {
			if e.refused < e.gets {
				st.waited = true
			}
			e.refused = -1
		}
		st.hash = hmix(st.hash, int(code), id)
		e.tracef("CanAdd=true, Add(#%d)", id)
	case opGet:
		e.fn = "SimpleBus.Get"
		it, ok := e.bus.Get()
		st.cycles++
		if ok {
			if it.ID <= 0 || it.ID >= len(e.ids) {
				e.fail("phantom-item", "Get delivered #%d which was never added", it.ID)
				return
			}
			in := &e.ids[it.ID]
			switch {
			case in.state == stDelivered:
				e.fail("duplicate-delivery", "Get delivered #%d again", it.ID)
			case in.state == stCleaned:
				e.fail("clean-not-empty", "Get delivered #%d which was on the bus when it was cleaned", it.ID)
			case in.addGets == e.gets:
				e.fail("early-visibility", "Get delivered #%d in the cycle it was added (no Get in between)", it.ID)
			case e.current == 0:
				e.fail("order", "Get delivered #%d, model has nothing current; %s", it.ID, e.show())
			case it.ID != e.current:
				e.fail("order", "Get delivered #%d, expected #%d; %s", it.ID, e.current, e.show())
			}
			if e.stop {
				return
			}
			in.state = stDelivered
			in.deliv++
			st.delivered++
		} else if e.current != 0 {
			cls := "lost-item"
			for k := 0; k < 3; k++ {
				if it, ok := e.bus.Get(); ok && it.ID == e.current {
					cls = "late-delivery"
				}
			}
			e.fail(cls, "Get delivered nothing, #%d is due (%s); %s", e.current, cls, e.show())
			return
		}
		e.current, e.pending = e.pending, 0
		e.gets++
		st.hash = hmix(st.hash, int(code), it.ID)
		e.tracef("Get -> %s", showItem(it, ok))
	case opCanAdd, opIsEmpty:
		st.hash = hmix(st.hash, int(code), e.pending, e.current)
	case opClean, opFlush:
		if op.K == opClean {
			e.fn = "SimpleBus.Clean"
			e.bus.Clean()
		} else {
			e.fn = "SimpleBus.Flush"
			e.bus.Flush()
		}
		n := 0
		for _, id := range []int{e.pending, e.current} {
			if id != 0 {
				e.ids[id].state = stCleaned
				n++
			}
		}
		e.pending, e.current = 0, 0
		switch {
		case n == 0:
			st.faultNoop++
		case op.K == opClean:
			st.faultClean++
			st.faulted = true
		default:
			st.faultFlush++
			st.faulted = true
		}
		ctx = opClean
		st.hash = hmix(st.hash, int(code), n)
		e.tracef("%s (removes %d)", op.K, n)
	default:
		return
	}
	e.fn = "SimpleBus.IsEmpty"
	if got := e.bus.IsEmpty(); got != (e.pending == 0 && e.current == 0) {
		cls := "observer:IsEmpty"
		if got {
			cls = "lost-item"
		}
		e.fail(ctxClass(ctx, cls), "IsEmpty()=%v; %s", got, e.show())
		return
	}
	e.fn = "SimpleBus.CanAdd"
	if got := e.bus.CanAdd(); got != (e.pending == 0) {
		e.fail(ctxClass(ctx, "capacity"), "CanAdd()=%v; %s", got, e.show())
	}
}
