package c14

import (
	"fmt"

	"github.com/teivah/majorana/proc/comp"

	"verifsim/internal/rng"
)

// Item is what travels on the simulated bus. IDs are unique and assigned by
// the executor in add order (1, 2, 3, ...), so "add order" == "id order".
type Item struct {
	ID   int
	Prod int
}

// bufBus is the API of comp.BufferedBus[Item] as the processor variants use it.
type bufBus interface {
	Add(t Item, currentCycle int)
	Revert(t Item, currentCycle int)
	DeleteLast()
	Get() (Item, bool)
	Pick(predicate func(Item) bool) (Item, bool)
	Exists(predicate func(Item) bool) bool
	CanGet() bool
	CanAdd() bool
	RemainingToAdd() int
	PendingRead() int
	IsEmpty() bool
	Connect(currentCycle int)
	Clean()
	InLength() int
	OutLength() int
}

// simBus is the API of comp.SimpleBus[Item].
type simBus interface {
	Add(t Item)
	Get() (Item, bool)
	CanAdd() bool
	IsEmpty() bool
	Flush()
	Clean()
}

// factory builds the bus under test (the real one, or a fake in the tests).
type factory struct {
	buffered func(queueLength, bufferLength int) bufBus
	simple   func() simBus
}

func realFactory() factory {
	return factory{
		buffered: func(q, b int) bufBus { return comp.NewBufferedBus[Item](q, b) },
		simple:   func() simBus { return &comp.SimpleBus[Item]{} },
	}
}

const (
	kindBuffered = "buffered"
	kindSimple   = "simple"
)

// Operation kinds. Every op is one atomic step of one simulated task, shaped
// like the code of the real units:
//
//	connect  clock task: bus.Connect(C), as CPU.Run does at the start of a cycle
//	add      producer T: if bus.CanAdd() { bus.Add(next item, cycle) }          (fetch / execute units)
//	addrem   producer T: if !CanAdd() return; r := RemainingToAdd(); add min(N, r) items (control unit, MVP-6.0)
//	get      consumer T: bus.Get()
//	pick     consumer T: bus.Pick(id % M == R)                                    (execute units, MVP-7.1/8.0)
//	exists   consumer T: bus.Exists(id % M == R)
//	canget, pending, isempty, canadd, remaining: observers
//	revert   consumer T: puts back the item it took in this very cycle: bus.Revert(item, cycle)
//	dellast  bus.DeleteLast()
//	clean    bus.Clean() (CPU flush, fetch-unit clean)
//	flush    SimpleBus.Flush()
const (
	opConnect   = "connect"
	opAdd       = "add"
	opAddRem    = "addrem"
	opGet       = "get"
	opPick      = "pick"
	opExists    = "exists"
	opCanGet    = "canget"
	opPending   = "pending"
	opIsEmpty   = "isempty"
	opCanAdd    = "canadd"
	opRemaining = "remaining"
	opRevert    = "revert"
	opDelLast   = "dellast"
	opClean     = "clean"
	opFlush     = "flush"
)

var opCodes = map[string]uint64{
	opConnect: 1, opAdd: 2, opAddRem: 3, opGet: 4, opPick: 5, opExists: 6, opCanGet: 7,
	opPending: 8, opIsEmpty: 9, opCanAdd: 10, opRemaining: 11, opRevert: 12, opDelLast: 13,
	opClean: 14, opFlush: 15,
}

// Op is one step. C is the argument of connect; on every other op it is
// informational (the executor always uses the cycle of the last connect, or
// the number of Gets so far on a SimpleBus) and is rewritten before a history
// is written out.
type Op struct {
	K string `json:"k"`
	C int    `json:"c"`
	T int    `json:"t,omitempty"`
	N int    `json:"n,omitempty"`
	M int    `json:"m,omitempty"`
	R int    `json:"r,omitempty"`
}

func (o Op) String() string {
	switch o.K {
	case opConnect:
		return fmt.Sprintf("connect(%d)", o.C)
	case opAdd:
		return fmt.Sprintf("P%d add", o.T)
	case opAddRem:
		return fmt.Sprintf("P%d addrem(%d)", o.T, o.N)
	case opPick, opExists:
		return fmt.Sprintf("C%d %s(id%%%d==%d)", o.T, o.K, o.M, o.R)
	case opGet, opRevert, opCanGet, opPending, opIsEmpty:
		return fmt.Sprintf("C%d %s", o.T, o.K)
	}
	return o.K
}

// History is the replay payload: bus kind, capacities, tasks and the full op
// list. After all ops the executor always drains the bus (connect / get until
// the reference model is empty) to decide "exactly once".
type History struct {
	Kind  string   `json:"kind"`
	Q     int      `json:"queue_length"`
	B     int      `json:"buffer_length"`
	Prod  int      `json:"producers"`
	Cons  int      `json:"consumers"`
	Ops   []Op     `json:"ops"`
	Trace []string `json:"trace,omitempty"` // informational, ignored by replay
}

func (h *History) clone() *History {
	c := *h
	c.Ops = append([]Op(nil), h.Ops...)
	c.Trace = nil
	return &c
}

const maxOps = 80

// generate derives one history from r only.
func generate(r *rng.R) *History {
	h := &History{Kind: kindBuffered}
	if r.Chance(1, 8) {
		h.Kind = kindSimple
	}
	h.Q = r.Range(1, 4)
	h.B = r.Range(1, 4)
	h.Prod = r.Range(1, 3)
	h.Cons = r.Range(1, 4)
	if h.Kind == kindSimple {
		// MVP-4/5: one unit in front of, one unit behind every SimpleBus
		h.Q, h.B = 1, 1
		genSimple(r, h)
		return h
	}
	if r.Chance(1, 4) {
		genShort(r, h)
	} else {
		genFlow(r, h)
	}
	return h
}

func pred(r *rng.R) (m, rem int) {
	m = r.Range(1, 4)
	return m, r.Intn(m)
}

// genShort: short histories with uniformly drawn ops (the "all interleavings up to
// length k" part of the quantifier, sampled).
func genShort(r *rng.R, h *History) {
	n := r.Range(3, 14)
	cycle := 1
	h.Ops = append(h.Ops, Op{K: opConnect, C: cycle})
	for len(h.Ops) < n {
		switch r.Pick([]int{5, 6, 2, 6, 3, 1, 1, 1, 1, 1, 1, 3, 2, 1}) {
		case 0:
			if !r.Chance(1, 6) {
				cycle++
			}
			h.Ops = append(h.Ops, Op{K: opConnect, C: cycle})
		case 1:
			h.Ops = append(h.Ops, Op{K: opAdd, T: r.Intn(h.Prod)})
		case 2:
			h.Ops = append(h.Ops, Op{K: opAddRem, T: r.Intn(h.Prod), N: r.Range(1, 4)})
		case 3:
			h.Ops = append(h.Ops, Op{K: opGet, T: r.Intn(h.Cons)})
		case 4:
			m, rem := pred(r)
			h.Ops = append(h.Ops, Op{K: opPick, T: r.Intn(h.Cons), M: m, R: rem})
		case 5:
			m, rem := pred(r)
			h.Ops = append(h.Ops, Op{K: opExists, T: r.Intn(h.Cons), M: m, R: rem})
		case 6:
			h.Ops = append(h.Ops, Op{K: opCanGet, T: r.Intn(h.Cons)})
		case 7:
			h.Ops = append(h.Ops, Op{K: opPending, T: r.Intn(h.Cons)})
		case 8:
			h.Ops = append(h.Ops, Op{K: opIsEmpty})
		case 9:
			h.Ops = append(h.Ops, Op{K: opCanAdd})
		case 10:
			h.Ops = append(h.Ops, Op{K: opRemaining})
		case 11:
			h.Ops = append(h.Ops, Op{K: opRevert, T: r.Intn(h.Cons)})
		case 12:
			h.Ops = append(h.Ops, Op{K: opDelLast})
		case 13:
			h.Ops = append(h.Ops, Op{K: opClean})
		}
	}
}

// genFlow: long histories shaped like CPU.Run: per cycle Connect, then a seeded
// interleaving of the steps of the producer and consumer tasks, with the fault
// operations placed inside the flow.
func genFlow(r *rng.R, h *History) {
	n := r.Range(20, maxOps)
	prodRate := []int{1, 2, 4, 6}[r.Intn(4)]
	consRate := []int{1, 1, 2, 4}[r.Intn(4)]
	faultRate := r.Intn(4)
	pickRate := []int{0, 1, 3}[r.Intn(3)]
	revRate := r.Intn(4) // chance /6 that a consumer reverts what it took
	cycle := 0
	wantRevert := make([]bool, h.Cons)
	for len(h.Ops) < n {
		switch {
		case cycle > 0 && r.Chance(1, 20):
			// a second Connect with the same cycle number (flush / ret paths of CPU.Run)
		case cycle > 0 && r.Chance(1, 25):
			cycle += r.Range(2, 3) // "cycle += latency.Flush"
		default:
			cycle++
		}
		h.Ops = append(h.Ops, Op{K: opConnect, C: cycle})
		for i := range wantRevert {
			wantRevert[i] = false
		}
		steps := r.Range(0, (h.Prod+h.Cons)*2)
		for s := 0; s < steps && len(h.Ops) < n; s++ {
			rv := 0
			for _, w := range wantRevert {
				if w {
					rv = 8
				}
			}
			k := r.Pick([]int{
				6 * prodRate, 2 * prodRate, 6 * consRate, 2 * pickRate * consRate,
				1, 1, 1, 1, 1, 1, // exists canget pending isempty canadd remaining
				rv, faultRate * 2, faultRate, 1, // wanted revert, dellast, clean, stray revert
			})
			switch k {
			case 0:
				h.Ops = append(h.Ops, Op{K: opAdd, T: r.Intn(h.Prod)})
			case 1:
				h.Ops = append(h.Ops, Op{K: opAddRem, T: r.Intn(h.Prod), N: r.Range(1, 4)})
			case 2, 3:
				t := r.Intn(h.Cons)
				if k == 2 {
					h.Ops = append(h.Ops, Op{K: opGet, T: t})
				} else {
					m, rem := pred(r)
					h.Ops = append(h.Ops, Op{K: opPick, T: t, M: m, R: rem})
				}
				if r.Chance(revRate, 6) {
					if r.Bool() && len(h.Ops) < n {
						h.Ops = append(h.Ops, Op{K: opRevert, T: t})
					} else {
						wantRevert[t] = true
					}
				}
			case 4:
				m, rem := pred(r)
				h.Ops = append(h.Ops, Op{K: opExists, T: r.Intn(h.Cons), M: m, R: rem})
			case 5:
				h.Ops = append(h.Ops, Op{K: opCanGet, T: r.Intn(h.Cons)})
			case 6:
				h.Ops = append(h.Ops, Op{K: opPending, T: r.Intn(h.Cons)})
			case 7:
				h.Ops = append(h.Ops, Op{K: opIsEmpty})
			case 8:
				h.Ops = append(h.Ops, Op{K: opCanAdd})
			case 9:
				h.Ops = append(h.Ops, Op{K: opRemaining})
			case 10:
				for t, w := range wantRevert {
					if w {
						h.Ops = append(h.Ops, Op{K: opRevert, T: t})
						wantRevert[t] = false
						break
					}
				}
			case 11:
				h.Ops = append(h.Ops, Op{K: opDelLast})
			case 12:
				h.Ops = append(h.Ops, Op{K: opClean})
			case 13:
				h.Ops = append(h.Ops, Op{K: opRevert, T: r.Intn(h.Cons)})
			}
		}
	}
}

// genSimple: SimpleBus as MVP-4/5 drive it: per machine cycle the upstream unit
// may CanAdd/Add, then the downstream unit may Get (or is busy and does not);
// flush() cleans the bus.
func genSimple(r *rng.R, h *History) {
	h.Prod, h.Cons = 1, 1
	n := r.Range(6, maxOps)
	prodRate := r.Range(1, 4)
	consRate := r.Range(1, 4)
	faultRate := r.Intn(3)
	for len(h.Ops) < n {
		switch r.Pick([]int{4 * prodRate, 4 * consRate, 1, 1, faultRate, faultRate}) {
		case 0:
			h.Ops = append(h.Ops, Op{K: opAdd})
		case 1:
			h.Ops = append(h.Ops, Op{K: opGet})
		case 2:
			h.Ops = append(h.Ops, Op{K: opCanAdd})
		case 3:
			h.Ops = append(h.Ops, Op{K: opIsEmpty})
		case 4:
			h.Ops = append(h.Ops, Op{K: opClean})
		case 5:
			h.Ops = append(h.Ops, Op{K: opFlush})
		}
	}
}
