//go:build verifoverlay

package core

import (
	"github.com/teivah/majorana/common/verifrt"

	"verifsim/internal/rng"
)

// SchedStats counts what the map-order seam did during one machine run.
type SchedStats struct {
	Visits   int // range visits with >= 2 keys (a choice existed)
	Reversed int
	Shuffled int
	Ties     int // visits whose canonical order had a tie (not replayable): harness trouble
}

// HookFor returns the verifrt hook implementing schedule s, counting into st.
func HookFor(s Sched, st *SchedStats) func(site, n int) uint64 {
	visit := uint64(0)
	switch s.Mode {
	case "", "identity":
		return func(site, n int) uint64 { st.Visits++; return 0 }
	case "reverse":
		return func(site, n int) uint64 { st.Visits++; st.Reversed++; return 1 }
	}
	return func(site, n int) uint64 {
		st.Visits++
		visit++
		h := rng.Derive(s.Seed, uint64(site), visit)
		switch h % 3 {
		case 0:
			return 0
		case 1:
			st.Reversed++
			return 1
		}
		st.Shuffled++
		return h | 2
	}
}

// SetHook installs h as the current map-order hook (nil = canonical order).
// Used by the machine-interleaving scheduler when it hands over the token.
func SetHook(h func(site, n int) uint64) { verifrt.Hook = h }

// Ties returns the number of non-replayable canonical-order ties so far.
func Ties() int { return verifrt.Ties }

// InstallSched makes verifrt follow s until the returned function is called;
// that function returns what happened. Exactly one machine may run at a time.
func InstallSched(s Sched) func() SchedStats {
	var st SchedStats
	ties0 := verifrt.Ties
	verifrt.Hook = HookFor(s, &st)
	return func() SchedStats {
		verifrt.Hook = nil
		st.Ties = verifrt.Ties - ties0
		return st
	}
}
