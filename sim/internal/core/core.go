// Package core holds what every whole-machine check shares: executing one
// (program, state, configuration, schedule) on the real machine, comparing it
// with the reference, and the violation classes.
package core

import (
	"fmt"

	"github.com/teivah/majorana/risc"

	"verifsim/internal/isa"
	"verifsim/internal/mach"
)

// BudgetTicks is C07's bound: 16 x 309 x (executed instructions + 64).
func BudgetTicks(executed int) int { return 16 * 309 * (executed + 64) }

// Class names of a comparison.
const (
	OK              = "ok"
	RegMismatch     = "register-mismatch"
	MemMismatch     = "memory-mismatch"
	UnexpectedError = "unexpected-error"
	MissingError    = "missing-error"
	Budget          = "budget-exceeded"
	ParseError      = "parse-error"
	PanicPrefix     = "panic:"
)

// Verdict of one machine run against the reference.
type Verdict struct {
	Class  string
	Detail string
	// BadRegs are all mismatching registers, BadLines the 64-byte lines that
	// contain a mismatching memory byte (at most 1024 are listed; BadMany if more).
	BadRegs  []isa.Reg
	BadLines []int32
	BadMany  bool
	// Any marks a violation that any value corruption in the run could cause
	// (e.g. a cycle count that depends on data because the machine took another
	// dynamic path): it is explained by whichever known defect is active.
	Any bool
}

func (v Verdict) OK() bool { return v.Class == OK }

// Parse feeds the printed program to the real parser.
func Parse(p *isa.Program) (risc.Application, error) {
	return risc.Parse(p.Text())
}

// Compare judges out against ref (ref must be well-formed).
func Compare(ref *isa.Result, out *mach.Outcome) Verdict {
	if out.Panic != "" {
		return Verdict{Class: PanicPrefix + out.PanicLoc, Detail: out.Panic}
	}
	if out.Budget {
		return Verdict{Class: Budget, Detail: fmt.Sprintf("no return within %d ticks", out.Ticks-1)}
	}
	if ref.End.DefinedError() {
		if out.Err == "" {
			return Verdict{Class: MissingError, Detail: "reference ends in " + ref.End.String() + ", Run returned nil error"}
		}
		return Verdict{Class: OK}
	}
	if out.Err != "" {
		return Verdict{Class: UnexpectedError, Detail: out.Err}
	}
	var v Verdict
	for r := isa.Reg(0); r < isa.NumRegs; r++ {
		if out.Regs[r] != ref.Final.Regs[r] {
			if v.Class == "" {
				v.Class = RegMismatch
				v.Detail = fmt.Sprintf("%s: machine %d, reference %d", r, out.Regs[r], ref.Final.Regs[r])
			}
			v.BadRegs = append(v.BadRegs, r)
		}
	}
	if out.ExtraRegs && v.Class == "" {
		return Verdict{Class: RegMismatch, Detail: "register map holds a key outside the 32 registers", BadMany: true}
	}
	if len(out.Mem) != len(ref.Final.Mem) {
		return Verdict{Class: MemMismatch, Detail: fmt.Sprintf("memory length %d vs %d", len(out.Mem), len(ref.Final.Mem)), BadMany: true}
	}
	last := int32(-1)
	for i := range out.Mem {
		if out.Mem[i] != ref.Final.Mem[i] {
			if v.Class == "" {
				v.Class = MemMismatch
				v.Detail = fmt.Sprintf("mem[%d]: machine %d, reference %d", i, out.Mem[i], ref.Final.Mem[i])
			}
			if l := int32(i) >> 6; l != last {
				last = l
				if len(v.BadLines) < 1024 {
					v.BadLines = append(v.BadLines, l)
				} else {
					v.BadMany = true
				}
			}
		}
	}
	if v.Class != "" {
		return v
	}
	return Verdict{Class: OK}
}
