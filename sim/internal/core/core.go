// Package core holds what every whole-machine check shares: executing one
// (program, state, configuration, schedule) on the real machine, comparing it
// with the reference, and the violation classes.
package core

import (
	"fmt"

	"github.com/teivah/majorana/risc"

	"verifsim/internal/isa"
	"verifsim/internal/mach"
)

// BudgetTicks is C07's bound: 16 x 309 x (executed instructions + 64).
func BudgetTicks(executed int) int { return 16 * 309 * (executed + 64) }

// Class names of a comparison.
const (
	OK              = "ok"
	RegMismatch     = "register-mismatch"
	MemMismatch     = "memory-mismatch"
	UnexpectedError = "unexpected-error"
	MissingError    = "missing-error"
	Budget          = "budget-exceeded"
	ParseError      = "parse-error"
	PanicPrefix     = "panic:"
)

// Verdict of one machine run against the reference.
type Verdict struct {
	Class  string
	Detail string
}

func (v Verdict) OK() bool { return v.Class == OK }

// Parse feeds the printed program to the real parser.
func Parse(p *isa.Program) (risc.Application, error) {
	return risc.Parse(p.Text())
}

// Compare judges out against ref (ref must be well-formed).
func Compare(ref *isa.Result, out *mach.Outcome) Verdict {
	if out.Panic != "" {
		return Verdict{PanicPrefix + out.PanicLoc, out.Panic}
	}
	if out.Budget {
		return Verdict{Budget, fmt.Sprintf("no return within %d ticks", out.Ticks-1)}
	}
	if ref.End.DefinedError() {
		if out.Err == "" {
			return Verdict{MissingError, "reference ends in " + ref.End.String() + ", Run returned nil error"}
		}
		return Verdict{OK, ""}
	}
	if out.Err != "" {
		return Verdict{UnexpectedError, out.Err}
	}
	for r := isa.Reg(0); r < isa.NumRegs; r++ {
		if out.Regs[r] != ref.Final.Regs[r] {
			return Verdict{RegMismatch, fmt.Sprintf("%s: machine %d, reference %d", r, out.Regs[r], ref.Final.Regs[r])}
		}
	}
	if out.ExtraRegs {
		return Verdict{RegMismatch, "register map holds a key outside the 32 registers"}
	}
	if len(out.Mem) != len(ref.Final.Mem) {
		return Verdict{MemMismatch, fmt.Sprintf("memory length %d vs %d", len(out.Mem), len(ref.Final.Mem))}
	}
	for i := range out.Mem {
		if out.Mem[i] != ref.Final.Mem[i] {
			return Verdict{MemMismatch, fmt.Sprintf("mem[%d]: machine %d, reference %d", i, out.Mem[i], ref.Final.Mem[i])}
		}
	}
	return Verdict{OK, ""}
}
