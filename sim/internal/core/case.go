package core

import (
	"verifsim/internal/isa"
	"verifsim/internal/mach"
)

// Sched is the map-iteration-order schedule of one machine run (seam S1).
// Mode "identity": canonical key order at every visit; "reverse"; "seeded":
// the choice at each (site, visit) is derived from Seed.
type Sched struct {
	Mode string `json:"mode"`
	Seed uint64 `json:"seed,omitempty"`
}

// Case is one fully determined execution: what a replay file stores.
type Case struct {
	Prog  *isa.Program `json:"program"`
	Init  *isa.State   `json:"-"`
	Cfg   mach.Config  `json:"config"`
	Sched Sched        `json:"schedule"`
	// Marks are instruction positions the property's oracle refers to (shadow
	// ranges, exit point); removing an instruction re-anchors them.
	Marks []int `json:"marks,omitempty"`
	// Aux is property-specific data (e.g. registers the tail produces).
	Aux []int `json:"aux,omitempty"`
}

func (c *Case) Clone() *Case {
	return &Case{Prog: c.Prog.Clone(), Init: c.Init.Clone(), Cfg: c.Cfg, Sched: c.Sched,
		Marks: append([]int(nil), c.Marks...), Aux: append([]int(nil), c.Aux...)}
}

// RemoveAt deletes instruction i and re-anchors labels and marks.
func (c *Case) RemoveAt(i int) {
	c.Prog.RemoveAt(i)
	for k, m := range c.Marks {
		if m > i {
			c.Marks[k] = m - 1
		}
	}
}

// CheckFn evaluates a case and returns its violation class (OK if none, ""
// if the case is not a valid input for the property).
type CheckFn func(c *Case) string

// Minimize shrinks c while check keeps returning class.
func Minimize(c *Case, class string, check CheckFn, maxEvals int) (*Case, int) {
	cur := c.Clone()
	evals := 0
	try := func(cand *Case) bool {
		if evals >= maxEvals {
			return false
		}
		evals++
		if check(cand) == class {
			cur = cand
			return true
		}
		return false
	}
	// 1. configuration
	for changed := true; changed; {
		changed = false
		for _, f := range []func(*mach.Config) bool{
			func(m *mach.Config) bool {
				if m.Cores > 1 {
					m.Cores--
					return true
				}
				return false
			},
			func(m *mach.Config) bool {
				if m.EU > 1 {
					m.EU--
					return true
				}
				return false
			},
			func(m *mach.Config) bool {
				if m.WU > 1 {
					m.WU--
					return true
				}
				return false
			},
		} {
			cand := cur.Clone()
			if f(&cand.Cfg) && try(cand) {
				changed = true
			}
		}
	}
	// schedule
	if cur.Sched.Mode != "identity" {
		cand := cur.Clone()
		cand.Sched = Sched{Mode: "identity"}
		if !try(cand) {
			cand = cur.Clone()
			cand.Sched = Sched{Mode: "reverse"}
			try(cand)
		}
	}
	// 2. program: chunk removal, then single removal, to fixpoint
	for chunk := max(1, len(cur.Prog.Insts)/2); evals < maxEvals; {
		removed := false
		for i := 0; i+chunk <= len(cur.Prog.Insts); {
			cand := cur.Clone()
			for k := 0; k < chunk; k++ {
				cand.RemoveAt(i)
			}
			if try(cand) {
				removed = true
			} else {
				i += chunk
			}
		}
		if chunk > 1 {
			chunk /= 2
		} else if !removed {
			break
		}
	}
	// instruction -> nop
	for i := range cur.Prog.Insts {
		if cur.Prog.Insts[i].Op == isa.NOP {
			continue
		}
		cand := cur.Clone()
		cand.Prog.Insts[i] = isa.Inst{Op: isa.NOP}
		try(cand)
	}
	// drop nops again
	for i := 0; i < len(cur.Prog.Insts); {
		if cur.Prog.Insts[i].Op == isa.NOP {
			cand := cur.Clone()
			cand.RemoveAt(i)
			if try(cand) {
				continue
			}
		}
		i++
	}
	// 3. initial state
	{
		cand := cur.Clone()
		for i := range cand.Init.Mem {
			cand.Init.Mem[i] = 0
		}
		try(cand)
		cand = cur.Clone()
		cand.Init.Regs = [isa.NumRegs]int32{}
		if !try(cand) {
			for r := isa.Reg(1); r < isa.NumRegs; r++ {
				if cur.Init.Regs[r] == 0 {
					continue
				}
				cand := cur.Clone()
				cand.Init.Regs[r] = 0
				try(cand)
			}
		}
		if len(cur.Init.Mem) > 256 {
			cand = cur.Clone()
			cand.Init.Mem = cand.Init.Mem[:256]
			try(cand)
		}
	}
	// operand simplification
	for i := range cur.Prog.Insts {
		in := cur.Prog.Insts[i]
		if in.Imm != 0 {
			for _, v := range []int32{0, 1, 4} {
				if in.Imm == v {
					break
				}
				cand := cur.Clone()
				cand.Prog.Insts[i].Imm = v
				if try(cand) {
					break
				}
			}
		}
		switch in.Op {
		case isa.LB, isa.LH:
			cand := cur.Clone()
			cand.Prog.Insts[i].Op = isa.LW
			try(cand)
		case isa.SB, isa.SH:
			cand := cur.Clone()
			cand.Prog.Insts[i].Op = isa.SW
			try(cand)
		}
	}
	// unused labels are dropped
	used := map[string]bool{}
	for _, in := range cur.Prog.Insts {
		if in.Label != "" {
			used[in.Label] = true
		}
	}
	for l := range cur.Prog.Labels {
		if !used[l] {
			delete(cur.Prog.Labels, l)
		}
	}
	return cur, evals
}
