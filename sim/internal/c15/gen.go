package c15

import (
	"verifsim/internal/rng"
)

// maxOps bounds a history.
const maxOps = 60

const (
	profSpread = iota // writes spread over the registers, a few per register and epoch
	profPile          // most writes go to one register: the ring wraps
	profSingle        // at most one uncommitted write per register (the transaction map's capacity)
	profChaos         // arbitrary tags, no pipeline discipline at all
	profCount
)

var profName = [profCount]string{"spread", "pile", "single", "chaos"}

type genInfo struct {
	allowOOO bool
	profile  int
}

type pend struct {
	tag int32
	reg int
	val int32
}

// generate builds one history from r. Three seeded tasks share a simulated
// pipeline: an issue stage hands out tags in program order, the write-back
// task completes pending writers (in tag order per register, or in any order
// when allowOOO), the branch task commits or rolls back to a crash point s
// drawn among / just below / just above the tags in flight, the reader task
// reads on behalf of tags around the ones in flight.
func generate(r *rng.R) (*History, genInfo) {
	info := genInfo{allowOOO: r.Chance(3, 5), profile: r.Pick([]int{4, 3, 2, 1})}
	regs := 2 + r.Intn(2)
	h := &History{Regs: regs, Init: make([]int32, regs)}

	used := map[int32]bool{0: true}
	newVal := func() int32 {
		for {
			var v int32
			if r.Chance(1, 4) {
				v = r.I32()
			} else {
				v = int32(r.Range(1, 99999))
			}
			if !used[v] {
				used[v] = true
				return v
			}
		}
	}
	for i := range h.Init {
		if r.Chance(3, 4) {
			h.Init[i] = newVal()
		}
	}

	target := r.Range(6, maxOps-2)
	hot := r.Intn(regs)
	next := int32(r.Range(1, 6))
	usedTag := map[int32]bool{}
	var pending []pend
	inflight := make([][]int32, regs) // tags of uncommitted writes per register (generator's view)

	pickReg := func() int {
		if info.profile == profPile && r.Chance(17, 20) {
			return hot
		}
		return r.Intn(regs)
	}
	issue := func() bool {
		reg := pickReg()
		if info.profile == profSingle {
			// find a register with neither an uncommitted nor a pending write
			ok := false
			for k := 0; k < regs; k++ {
				c := (reg + k) % regs
				busy := len(inflight[c]) > 0
				for _, p := range pending {
					if p.reg == c {
						busy = true
					}
				}
				if !busy {
					reg, ok = c, true
					break
				}
			}
			if !ok {
				return false
			}
		}
		var tag int32
		if info.profile == profChaos {
			for {
				tag = int32(r.Range(1, 240))
				if !usedTag[tag] {
					break
				}
			}
		} else {
			tag = next
			next += int32(r.Pick([]int{6, 2, 1}) + 1)
		}
		usedTag[tag] = true
		pending = append(pending, pend{tag, reg, newVal()})
		return true
	}
	allTags := func() []int32 {
		var ts []int32
		for _, l := range inflight {
			ts = append(ts, l...)
		}
		for _, p := range pending {
			ts = append(ts, p.tag)
		}
		return ts
	}
	around := func(ts []int32, fallback int32) int32 {
		if len(ts) == 0 {
			ts = []int32{fallback}
		}
		var s int32
		if r.Chance(1, 8) {
			lo, hi := ts[0], ts[0]
			for _, t := range ts {
				if t < lo {
					lo = t
				}
				if t > hi {
					hi = t
				}
			}
			if r.Bool() {
				s = lo - 2
			} else {
				s = hi + 2
			}
		} else {
			s = ts[r.Intn(len(ts))] + int32(r.Pick([]int{1, 2, 1})-1)
		}
		if s < 1 {
			s = 1
		}
		return s
	}

	weights := [profCount][]int{
		profSpread: {10, 5, 2, 3, 1},
		profPile:   {18, 4, 1, 1, 1},
		profSingle: {6, 5, 3, 4, 1},
		profChaos:  {10, 5, 2, 3, 1},
	}
	for len(h.Ops) < target {
		// issue stage
		for k := r.Intn(3); k > 0 && len(pending) < 6; k-- {
			issue()
		}
		act := r.Pick(weights[info.profile])
		if act == 0 && len(pending) == 0 && !issue() {
			act = 2 + r.Intn(2) // nothing can be written back: let the branch task run
		}
		switch act {
		case 0: // write-back
			idx := r.Intn(len(pending))
			if !info.allowOOO {
				// oldest pending writer of the chosen writer's register
				reg := pending[idx].reg
				for j, p := range pending {
					if p.reg == reg && p.tag < pending[idx].tag {
						idx = j
					}
				}
				// ... and never older than what the register already holds (chaos tags)
				older := false
				for _, t := range inflight[reg] {
					if t > pending[idx].tag {
						older = true
					}
				}
				if older {
					pending = append(pending[:idx], pending[idx+1:]...)
					continue
				}
			}
			p := pending[idx]
			pending = append(pending[:idx], pending[idx+1:]...)
			h.Ops = append(h.Ops, Op{K: "w", R: p.reg, V: p.val, T: p.tag})
			inflight[p.reg] = append(inflight[p.reg], p.tag)
		case 1: // reader
			reg := pickReg()
			var t int32
			if !r.Chance(1, 4) {
				ts := append([]int32(nil), inflight[reg]...)
				if r.Chance(1, 3) {
					ts = allTags()
				}
				t = around(ts, next)
			}
			h.Ops = append(h.Ops, Op{K: "r", R: reg, T: t})
		case 2: // branch resolved as predicted
			h.Ops = append(h.Ops, Op{K: "c"})
			for i := range inflight {
				inflight[i] = nil
			}
		case 3: // branch mispredicted: crash at s
			s := around(allTags(), next)
			h.Ops = append(h.Ops, Op{K: "rb", T: s})
			for i := range inflight {
				inflight[i] = nil
			}
			if r.Chance(3, 4) {
				// pipeline flush: writers younger than the branch never write back
				kept := pending[:0]
				for _, p := range pending {
					if p.tag <= s {
						kept = append(kept, p)
					}
				}
				pending = kept
			}
			if s >= next {
				next = s + 1
			}
			next += int32(r.Intn(3))
		case 4:
			h.Ops = append(h.Ops, Op{K: "f"})
		}
	}
	// End of the program: MVP-6.3+ finish with RATCommit; RATFlush.
	if r.Bool() {
		h.Ops = append(h.Ops, Op{K: "c"})
	}
	h.Ops = append(h.Ops, Op{K: "f"})
	h.Arrival = arrivalOf(h.Ops)
	return h, info
}
