package c15

import (
	"encoding/json"
	"fmt"
	"os"
	"testing"

	"verifsim/internal/api"
	"verifsim/internal/rng"
)

// ---------------------------------------------------------------------------
// In-package fakes: a correct implementation of the statement with unlimited
// capacity, plus switches that break it in the ways the oracle must notice.

type fakeBug int

const (
	bugNone             fakeBug = iota
	bugCommitOldest             // commit takes the oldest (smallest-tag) write
	bugRollbackLE               // rollback keeps writes with tag <= s
	bugReadIgnoresTag           // a tag-bounded read returns the youngest write whatever its tag
	bugCommitArrival            // commit takes the latest-arrived write (only wrong for out-of-order arrival)
	bugRollbackZero             // rollback writes 0 when no write is older than s
	bugCommitTouchesAll         // commit zeroes registers without uncommitted writes
	bugFlushStale               // flush does not publish the committed state
)

type fakeMachine struct {
	bug       fakeBug
	committed []int32
	regs      []int32
	inflight  [][]wr
}

func newFake(bug fakeBug, regs int, init []int32) *fakeMachine {
	f := &fakeMachine{bug: bug, committed: make([]int32, regs), regs: make([]int32, regs), inflight: make([][]wr, regs)}
	copy(f.committed, init)
	copy(f.regs, init)
	return f
}

func (f *fakeMachine) Cur() string { return "fake" }
func (f *fakeMachine) Write(reg int, val, tag int32) {
	f.inflight[reg] = append(f.inflight[reg], wr{tag: tag, val: val})
}
func (f *fakeMachine) Read(reg int, tag int32) int32 {
	ws := f.inflight[reg]
	if tag == 0 || f.bug == bugReadIgnoresTag {
		if y, ok := youngest(ws, 0); ok {
			return y.val
		}
		return f.committed[reg]
	}
	if y, ok := youngest(ws, tag+1); ok {
		return y.val
	}
	return f.committed[reg]
}
func (f *fakeMachine) Commit() {
	for r, ws := range f.inflight {
		if len(ws) == 0 {
			if f.bug == bugCommitTouchesAll {
				f.committed[r] = 0
			}
			continue
		}
		y, _ := youngest(ws, 0)
		switch f.bug {
		case bugCommitOldest:
			for _, w := range ws {
				if w.tag < y.tag {
					y = w
				}
			}
		case bugCommitArrival:
			y = ws[len(ws)-1]
		}
		f.committed[r] = y.val
		f.inflight[r] = nil
	}
}
func (f *fakeMachine) Rollback(s int32) {
	bound := s
	if f.bug == bugRollbackLE {
		bound = s + 1
	}
	for r, ws := range f.inflight {
		if len(ws) == 0 {
			continue
		}
		if y, ok := youngest(ws, bound); ok {
			f.committed[r] = y.val
		} else if f.bug == bugRollbackZero {
			f.committed[r] = 0
		}
		f.inflight[r] = nil
	}
}
func (f *fakeMachine) Flush() {
	if f.bug != bugFlushStale {
		copy(f.regs, f.committed)
	}
}
func (f *fakeMachine) Arch(reg int) int32 { return f.committed[reg] }
func (f *fakeMachine) Regs(reg int) int32 { return f.regs[reg] }

// oneSlot is the transaction map as the statement wants it: one slot per
// register (latest arrival wins) and a read that honours the tag bound.
type oneSlot struct {
	committed []int32
	slot      []*wr
}

func newOneSlot(regs int, init []int32) *oneSlot {
	o := &oneSlot{committed: make([]int32, regs), slot: make([]*wr, regs)}
	copy(o.committed, init)
	return o
}
func (o *oneSlot) Cur() string { return "oneSlot" }
func (o *oneSlot) Write(reg int, val, tag int32) {
	o.slot[reg] = &wr{tag: tag, val: val}
}
func (o *oneSlot) Read(reg int, tag int32) int32 {
	if w := o.slot[reg]; w != nil && (tag == 0 || w.tag <= tag) {
		return w.val
	}
	return o.committed[reg]
}
func (o *oneSlot) Commit() {
	for r, w := range o.slot {
		if w != nil {
			o.committed[r] = w.val
		}
		o.slot[r] = nil
	}
}
func (o *oneSlot) Rollback(s int32) {
	for r, w := range o.slot {
		if w != nil && w.tag < s {
			o.committed[r] = w.val
		}
		o.slot[r] = nil
	}
}
func (o *oneSlot) Flush()             {}
func (o *oneSlot) Arch(reg int) int32 { return o.committed[reg] }
func (o *oneSlot) Regs(reg int) int32 { return o.committed[reg] }

// listRing is a correct comp.RAT: the last `length` writes per key.
type listRing struct {
	length int
	ent    map[int][]unit
	bug    int // 0 none, 1 Find newest-only (the tree's defect), 2 Find returns the OLDEST match, 3 FindValues scans unwritten slots, 4 ring keeps length-1 entries
}

func (l *listRing) win(k int) []unit {
	e := l.ent[k]
	n := l.length
	if l.bug == 4 {
		n--
	}
	if len(e) > n {
		e = e[len(e)-n:]
	}
	return e
}
func (l *listRing) Read(k int) (unit, bool) {
	e := l.ent[k]
	if len(e) == 0 {
		return unit{}, false
	}
	return e[len(e)-1], true
}
func (l *listRing) Find(k int, pred func(unit) bool) (unit, bool) {
	e := l.win(k)
	switch l.bug {
	case 1:
		if len(e) > 0 && pred(e[len(e)-1]) {
			return e[len(e)-1], true
		}
		return unit{}, false
	case 2:
		for i := 0; i < len(e); i++ {
			if pred(e[i]) {
				return e[i], true
			}
		}
		return unit{}, false
	}
	for i := len(e) - 1; i >= 0; i-- {
		if pred(e[i]) {
			return e[i], true
		}
	}
	return unit{}, false
}
func (l *listRing) Write(k int, v unit) { l.ent[k] = append(l.ent[k], v) }
func (l *listRing) Values() map[int]unit {
	m := map[int]unit{}
	for k := range l.ent {
		m[k], _ = l.Read(k)
	}
	return m
}
func (l *listRing) FindValues(pred func(unit) bool) map[int]unit {
	m := map[int]unit{}
	for k := range l.ent {
		fb := 0
		if l.bug == 4 {
			fb = 4
		}
		if u, ok := (&listRing{length: l.length, ent: l.ent, bug: fb}).Find(k, pred); ok {
			m[k] = u
		} else if l.bug == 3 && len(l.ent[k]) < l.length && pred(unit{}) {
			m[k] = unit{}
		}
	}
	return m
}

func mkListRing(bug int) func(int) ring {
	return func(length int) ring { return &listRing{length: length, ent: map[int][]unit{}, bug: bug} }
}

// ---------------------------------------------------------------------------

const testHistories = 6000

type tally struct {
	classes map[string]int
	kf      map[string]int
	ooo     map[string]int // class -> found in a history whose arrival is out of order
	inorder map[string]int
}

func newTally() *tally {
	return &tally{map[string]int{}, map[string]int{}, map[string]int{}, map[string]int{}}
}

func (t *tally) add(h *History, f *finding) {
	if f == nil {
		return
	}
	t.classes[f.Class]++
	if f.KF != "" {
		t.kf[f.Class+"/"+f.KF]++
	}
	if h.Arrival == "ooo" {
		t.ooo[f.Class]++
	} else {
		t.inorder[f.Class]++
	}
}

func sweepMachine(slots int, prefix string, mk func(h *History) machine) *tally {
	t := newTally()
	for i := 0; i < testHistories; i++ {
		h, _ := generate(rng.New(rng.Derive(0xC15, uint64(i))))
		t.add(h, checkMachine(h, mk(h), slots, prefix, nil, nil, nil))
	}
	return t
}

func sweepRing(mk func(int) ring) *tally {
	t := newTally()
	for i := 0; i < testHistories; i++ {
		r := rng.New(rng.Derive(0xC15, uint64(i)))
		h, _ := generate(r)
		h.Mode, h.Ring = "ring", r.Range(2, 10)
		t.add(h, checkRing(h, mk, nil, nil, nil))
	}
	return t
}

func fakeMk(bug fakeBug) func(h *History) machine {
	return func(h *History) machine { return newFake(bug, h.Regs, h.Init) }
}

// A correct implementation must never be flagged, whatever capacity the oracle
// is told (the oracle may only become more lenient beyond the slots).
func TestOracleAcceptsCorrectImplementations(t *testing.T) {
	for _, slots := range []int{1, 2, ctxRatLength, 1 << 20} {
		for _, prefix := range []string{"", "rat-"} {
			if tl := sweepMachine(slots, prefix, fakeMk(bugNone)); len(tl.classes) != 0 {
				t.Errorf("correct unlimited fake flagged with slots=%d prefix=%q: %v", slots, prefix, tl.classes)
			}
		}
	}
	if tl := sweepMachine(1, "", func(h *History) machine { return newOneSlot(h.Regs, h.Init) }); len(tl.classes) != 0 {
		t.Errorf("one-slot transaction map with a tag-honouring read flagged: %v", tl.classes)
	}
	if tl := sweepRing(mkListRing(0)); len(tl.classes) != 0 {
		t.Errorf("correct list ring flagged: %v", tl.classes)
	}
}

func TestOracleCatchesBrokenFakes(t *testing.T) {
	cases := []struct {
		name   string
		bug    fakeBug
		slots  int
		prefix string
		class  string
		// onlyOOO: must be found in out-of-order histories and never in in-order ones
		onlyOOO bool
		// kf: the known-finding trigger that may (and must) tag it; "" = must stay untagged
		kf string
	}{
		{"commit takes the oldest write", bugCommitOldest, ctxRatLength, "rat-", "rat-commit-value", false, ""},
		{"commit takes the oldest write (tx)", bugCommitOldest, 1 << 20, "", "commit-value", false, ""},
		{"rollback uses <=", bugRollbackLE, ctxRatLength, "rat-", "rat-rollback-value", false, ""},
		{"rollback uses <= (one slot)", bugRollbackLE, 1, "", "rollback-value", false, ""},
		{"read ignores the tag bound", bugReadIgnoresTag, ctxRatLength, "rat-", "rat-read-younger", false, ""},
		{"read ignores the tag bound (one slot)", bugReadIgnoresTag, 1, "", "read-younger", false, "KF-C15-4"},
		{"commit by arrival order", bugCommitArrival, ctxRatLength, "rat-", "rat-commit-value", true, "KF-C15-3"},
		{"rollback zeroes", bugRollbackZero, ctxRatLength, "rat-", "rat-rollback-value", false, "KF-C15-2"},
		{"commit touches idle registers", bugCommitTouchesAll, ctxRatLength, "rat-", "rat-commit-value", false, ""},
		{"flush publishes nothing", bugFlushStale, ctxRatLength, "rat-", "rat-flush-value", false, ""},
	}
	for _, c := range cases {
		tl := sweepMachine(c.slots, c.prefix, fakeMk(c.bug))
		if tl.classes[c.class] == 0 {
			t.Errorf("%s: class %q not detected in %d histories: %v", c.name, c.class, testHistories, tl.classes)
			continue
		}
		for cls := range tl.classes {
			if cls != c.class {
				t.Errorf("%s: unexpected class %q (%v)", c.name, cls, tl.classes)
			}
		}
		if c.onlyOOO && (tl.inorder[c.class] != 0 || tl.ooo[c.class] == 0) {
			t.Errorf("%s: expected only in out-of-order histories, got inorder=%d ooo=%d", c.name, tl.inorder[c.class], tl.ooo[c.class])
		}
		if !c.onlyOOO && tl.inorder[c.class] == 0 {
			t.Errorf("%s: not detected in any in-order history", c.name)
		}
		// Some breakages are observationally identical to a listed defect in
		// particular histories (with two writes arriving out of order the oldest
		// IS the latest-arrived); what matters is that a different breakage is
		// also reported untagged, and is never tagged in an in-order history
		// with the out-of-order trigger.
		tagged := 0
		for k, n := range tl.kf {
			if c.kf == "" && k == c.class+"/KF-C15-3" && tl.inorder[c.class] > 0 {
				tagged += n
				continue
			}
			if k != c.class+"/"+c.kf {
				t.Errorf("%s: tagged with the trigger of an unrelated finding: %s x%d", c.name, k, n)
			}
			tagged += n
		}
		if c.kf == "" && tl.classes[c.class]-tagged < tl.inorder[c.class] {
			t.Errorf("%s: a different breakage must stay untagged in every in-order history: %d detections, %d tagged, %d in-order", c.name, tl.classes[c.class], tagged, tl.inorder[c.class])
		}
		if c.kf != "" && tagged == 0 {
			t.Errorf("%s: trigger %s never fired", c.name, c.kf)
		}
		t.Logf("%-40s detected %5d/%d (inorder %d, ooo %d) tagged %v", c.name, tl.classes[c.class], testHistories, tl.inorder[c.class], tl.ooo[c.class], tl.kf)
	}
}

func TestRingOracle(t *testing.T) {
	cases := []struct {
		name  string
		bug   int
		class string
		kf    string
	}{
		{"Find tests only the newest entry", 1, "rat-find", "KF-C15-1"},
		{"Find returns the oldest match", 2, "rat-find", ""},
		{"FindValues matches unwritten slots", 3, "rat-findvalues", "KF-C15-2"},
	}
	for _, c := range cases {
		tl := sweepRing(mkListRing(c.bug))
		if tl.classes[c.class] == 0 {
			t.Errorf("%s: not detected: %v", c.name, tl.classes)
		}
		for k := range tl.kf {
			if k != c.class+"/"+c.kf {
				t.Errorf("%s: wrong trigger %s", c.name, k)
			}
		}
		if c.kf != "" && tl.kf[c.class+"/"+c.kf] == 0 {
			t.Errorf("%s: trigger %s never fired", c.name, c.kf)
		}
		t.Logf("%-40s %v tagged %v", c.name, tl.classes, tl.kf)
	}
	// A ring that forgets one entry too early: its Find misses are
	// observationally the listed defect (only the oldest entry matched), but it
	// is also reported untagged through FindValues.
	tl := sweepRing(mkListRing(4))
	if tl.classes["rat-findvalues"] == 0 || tl.kf["rat-findvalues/KF-C15-2"] != 0 {
		t.Errorf("short ring: classes %v tagged %v", tl.classes, tl.kf)
	}
}

// Stepping over an open known finding must not hide a different breakage later
// in the same history.
func TestStepOver(t *testing.T) {
	h := &History{Mode: "rat", Ring: ctxRatLength, Regs: 1, Init: []int32{7}, Ops: []Op{
		{K: "w", R: 0, V: 11, T: 5}, {K: "rb", T: 3}, // zeroes r0 under bugRollbackZero (KF-C15-2 trigger)
		{K: "w", R: 0, V: 12, T: 8}, {K: "w", R: 0, V: 13, T: 9}, {K: "c"},
	}}
	var known []*finding
	f := checkMachine(h, newFake(bugRollbackZero, 1, h.Init), ctxRatLength, "rat-", nil, func(id string) bool { return id == "KF-C15-2" }, &known)
	if f != nil || len(known) != 1 || known[0].KF != "KF-C15-2" {
		t.Fatalf("step over: f=%v known=%v", f, known)
	}
	f = checkMachine(h, newFake(bugRollbackZero, 1, h.Init), ctxRatLength, "rat-", nil, nil, nil)
	if f == nil || f.KF != "KF-C15-2" {
		t.Fatalf("without tolerance: %v", f)
	}
}

func withVerifDir(t *testing.T, known string) {
	t.Helper()
	dir := t.TempDir()
	if known != "" {
		if err := os.WriteFile(dir+"/KNOWN_FINDINGS.txt", []byte(known), 0o644); err != nil {
			t.Fatal(err)
		}
	}
	t.Setenv("VERIF_DIR", dir)
}

func pack(r *api.Result) string {
	var x uint64
	for h := range r.Distinct {
		x ^= h
	}
	b, _ := json.Marshal(r)
	return fmt.Sprintf("%s|%d|%x", b, len(r.Distinct), x)
}

// The real tree: same seed twice gives identical results; every violation's
// payload replays to the same class; results of split ranges merge to the same counters.
func TestRealTreeDeterministicAndReplayable(t *testing.T) {
	withVerifDir(t, "")
	c := New()
	b := api.Batch{Property: "C15", Tier: "quick", Seed: 42, From: 0, To: 1500}
	r1, r2 := c.Run(b), c.Run(b)
	if pack(r1) != pack(r2) {
		t.Fatalf("same seed, different results")
	}
	if r1.Evaluations != 1500 || len(r1.Distinct) == 0 {
		t.Fatalf("evaluations %d distinct %d", r1.Evaluations, len(r1.Distinct))
	}
	for _, v := range r1.Violations {
		rv, err := c.Replay(v.Replay)
		if err != nil {
			t.Fatalf("replay of %s: %v", v.Class, err)
		}
		if rv == nil || rv.Class != v.Class {
			t.Fatalf("replay of %s gave %v; payload %s", v.Class, rv, v.Replay)
		}
		var h History
		json.Unmarshal(v.Replay, &h)
		if len(h.Ops) > 4 {
			t.Errorf("%s not minimised: %s", v.Class, h.String())
		}
	}
	// split ranges: counters add up
	ra := c.Run(api.Batch{Property: "C15", Tier: "quick", Seed: 42, From: 0, To: 700})
	rb := c.Run(api.Batch{Property: "C15", Tier: "quick", Seed: 42, From: 700, To: 1500})
	ra.Merge(rb, 3, 1000)
	for k, v := range r1.Counters {
		if k == "violations_not_written_out" {
			continue
		}
		if ra.Counters[k] != v {
			t.Errorf("counter %s: whole %d, split %d", k, v, ra.Counters[k])
		}
	}
	if len(ra.Distinct) != len(r1.Distinct) || ra.SimCycles != r1.SimCycles {
		t.Errorf("split run differs: distinct %d/%d cycles %d/%d", len(ra.Distinct), len(r1.Distinct), ra.SimCycles, r1.SimCycles)
	}
}

// (The test that relied on the four defects of the original tree was removed
// when those defects were repaired in /repo; see KNOWN_FINDINGS.txt "fixed:" entries.)

func TestReplayRejectsGarbage(t *testing.T) {
	withVerifDir(t, "")
	c := New()
	for _, p := range []string{`{}`, `{"mode":"rat","regs":9,"ops":[]}`, `{"mode":"ring","ring":0,"regs":1}`, `{"mode":"txmap","regs":1,"ops":[{"k":"w","r":3,"t":1}]}`, `nope`} {
		if _, err := c.Replay(json.RawMessage(p)); err == nil {
			t.Errorf("payload %s accepted", p)
		}
	}
	v, err := c.Replay(json.RawMessage(`{"mode":"txmap","regs":2,"init":[5,6],"ops":[{"k":"w","r":0,"v":9,"t":3},{"k":"c"},{"k":"f"}]}`))
	if err != nil || v != nil {
		t.Errorf("clean history: %v %v", v, err)
	}
}
