// Package c15 decides property C15 (see /verif/DESIGN.md §5): speculative
// register state commits and rolls back by program order.
//
// One run index is one seeded history of write(reg, value, tag) / read(reg,
// tag) / commit / rollback(s) / flush operations (gen.go). The history is
// executed against three real components: the transaction map of a
// risc.Context, the rename table of a risc.Context, and a bare comp.RAT of
// ring length 2..10. The oracle (model.go) is a per-register list of the
// uncommitted (tag, value) writes plus the committed value.
package c15

import (
	"encoding/json"
	"fmt"

	"verifsim/internal/api"
	"verifsim/internal/findings"
	"verifsim/internal/rng"
)

type check struct{}

// New returns the C15 check.
func New() api.Check { return check{} }

func (check) ID() string { return "C15" }

func (check) Runs(tier string) int {
	if tier == "thorough" {
		return 5000000
	}
	return 50000
}

var modes = [3]string{"txmap", "rat", "ring"}

// outcome of one execution: the first violation not stepped over, the
// violations stepped over (open known findings), the observations.
type outcome struct {
	f     *finding
	known []*finding
	trace []int32
}

// first returns the violation to report for this execution.
func (o outcome) first() *finding {
	if o.f != nil {
		return o.f
	}
	if len(o.known) > 0 {
		return o.known[0]
	}
	return nil
}

// execute runs h on a fresh instance of the real component of h.Mode.
func execute(h *History, tol func(string) bool) (out outcome) {
	f, known, trace := execute1(h, tol)
	return outcome{f, known, trace}
}

func execute1(h *History, tol func(string) bool) (f *finding, known []*finding, trace []int32) {
	defer func() {
		if p := recover(); p != nil {
			f = &finding{Class: "panic:setup", Detail: fmt.Sprintf("setting up mode %s panicked: %v", h.Mode, p), OpIdx: -1}
		}
	}()
	switch h.Mode {
	case "txmap":
		f = checkMachine(h, newCtxMachine(false, h.Init), 1, "", &trace, tol, &known)
	case "rat":
		f = checkMachine(h, newCtxMachine(true, h.Init), ctxRatLength, "rat-", &trace, tol, &known)
	case "ring":
		f = checkRing(h, realRing, &trace, tol, &known)
	default:
		panic("unknown mode " + h.Mode)
	}
	return f, known, trace
}

func sameOutcome(a, b outcome) bool {
	f1, f2, t1, t2 := a.f, b.f, a.trace, b.trace
	if (f1 == nil) != (f2 == nil) || len(a.known) != len(b.known) {
		return false
	}
	if f1 != nil && (f1.Class != f2.Class || f1.OpIdx != f2.OpIdx) {
		return false
	}
	if len(t1) != len(t2) {
		return false
	}
	for i := range t1 {
		if t1[i] != t2[i] {
			return false
		}
	}
	return true
}

// executeChecked executes h 1+reruns times; an outcome of the real code that
// differs between executions of the same history (Context iterates Go maps) is
// a finding of its own.
func executeChecked(h *History, reruns int, tol func(string) bool) outcome {
	o := execute(h, tol)
	for k := 0; k < reruns; k++ {
		o2 := execute(h, tol)
		if !sameOutcome(o, o2) {
			d1, d2 := "no violation", "no violation"
			if f := o.first(); f != nil {
				d1 = f.Class + ": " + f.Detail
			}
			if f := o2.first(); f != nil {
				d2 = f.Class + ": " + f.Detail
			}
			return outcome{f: &finding{Class: "nondeterministic", OpIdx: -1,
				Detail: fmt.Sprintf("the same history gave different outcomes in two executions (map iteration order?): [%s] vs [%s]; observations %v vs %v", d1, d2, o.trace, o2.trace)}}
		}
	}
	return o
}

func validate(h *History) error {
	switch h.Mode {
	case "txmap":
		h.Ring = 1
	case "rat":
		h.Ring = ctxRatLength
	case "ring":
		if h.Ring < 1 || h.Ring > 64 {
			return fmt.Errorf("ring length %d out of range", h.Ring)
		}
	default:
		return fmt.Errorf("unknown mode %q", h.Mode)
	}
	if h.Regs < 1 || h.Regs > maxRegs {
		return fmt.Errorf("regs %d out of range 1..%d", h.Regs, maxRegs)
	}
	if len(h.Init) > h.Regs {
		return fmt.Errorf("init has %d entries for %d registers", len(h.Init), h.Regs)
	}
	if len(h.Ops) > 4096 {
		return fmt.Errorf("history too long")
	}
	for i, o := range h.Ops {
		switch o.K {
		case "w":
			if o.T < 1 {
				return fmt.Errorf("op %d: write tag must be >= 1", i)
			}
			if o.R < 0 || o.R >= h.Regs {
				return fmt.Errorf("op %d: register out of range", i)
			}
		case "r":
			if o.T < 0 {
				return fmt.Errorf("op %d: negative tag", i)
			}
			if o.R < 0 || o.R >= h.Regs {
				return fmt.Errorf("op %d: register out of range", i)
			}
		case "rb":
			if o.T < 1 {
				return fmt.Errorf("op %d: rollback tag must be >= 1", i)
			}
		case "c", "f":
		default:
			return fmt.Errorf("op %d: unknown kind %q", i, o.K)
		}
	}
	return nil
}

// sameAs is the shrink predicate: the candidate still fails first with the
// same class and the same known-finding trigger.
func sameAs(want *finding, tol func(string) bool) func(*History) *finding {
	return func(c *History) *finding {
		g := execute(c, tol).f
		if g != nil && g.Class == want.Class && g.KF == want.KF {
			return g
		}
		return nil
	}
}

func toViolation(h *History, f *finding, kf *findings.Set) api.Violation {
	payload, _ := json.Marshal(h)
	detail := fmt.Sprintf("[mode %s, %d slot(s), %s arrival] %s | history: %s", h.Mode, h.Ring, h.Arrival, f.Detail, h.String())
	v := api.Violation{Property: "C15", Class: f.Class, Detail: detail, Replay: payload}
	if f.KF != "" {
		v.Detail += " | trigger " + f.KF
		if kf != nil && kf.IsOpen("C15", f.KF) {
			v.KnownFinding = f.KF
		}
	}
	return v
}

const (
	maxFreshPerClass = 3    // fresh violations written out per class and batch
	kfWindow         = 2000 // run indices at the start of each block in which an open known finding is still emitted
)

func (c check) Run(b api.Batch) *api.Result {
	res := api.NewResult()
	if err := loadReaders(); err != nil {
		res.Violations = append(res.Violations, api.Violation{Property: "C15", Class: "panic:setup", Detail: err.Error(), RunIndex: b.From, Seed: b.Seed, Replay: json.RawMessage(`{}`)})
		return res
	}
	kf := findings.Default()
	block := c.Runs(b.Tier) / 8
	if block < 1 {
		block = 1
	}
	emitted := map[string]int{}
	tol := func(id string) bool { return kf.IsOpen("C15", id) }

	for i := b.From; i < b.To; i++ {
		r := rng.New(rng.Derive(b.Seed, uint64(i)))
		h, info := generate(r)
		ringLen := r.Range(2, 10)
		reruns := 1
		if r.Chance(1, 8) {
			reruns = 4
		}

		res.Evaluations++
		sub := h.Arrival // "inorder" | "ooo": the sub-batch this history belongs to
		res.Count("histories_"+sub, 1)
		res.Count("histories_profile_"+profName[info.profile], 1)
		a := analyse(h, []namedLen{{"ctx_rat", ctxRatLength}, {"direct", ringLen}, {"txmap_slot", 1}})
		for k, v := range a.counters {
			res.Count(k, v)
		}
		if a.nonTrivial {
			res.Seen(a.hash)
			res.Count("histories_nontrivial", 1)
		}
		if i-b.From < 3 {
			res.AddSample(map[string]any{"run": i, "profile": profName[info.profile], "arrival": sub, "regs": h.Regs, "init": h.Init, "direct_ring_length": ringLen, "history": h.String()}, 3)
		}

		for _, mode := range modes {
			hh := h.clone()
			hh.Mode = mode
			switch mode {
			case "txmap":
				hh.Ring = 1
			case "rat":
				hh.Ring = ctxRatLength
			case "ring":
				hh.Ring = ringLen
			}
			out := executeChecked(hh, reruns, tol)
			res.SimCycles += int64(len(hh.Ops))
			res.Count("executions_"+mode, 1)
			if out.f == nil && len(out.known) == 0 {
				res.Count("pass_"+mode+"_"+sub, 1)
				continue
			}
			// open known findings stepped over: counted per trigger and sub-batch
			for _, k := range out.known {
				res.Count("known_"+k.KF+":"+mode+":"+k.Class+"_"+sub, 1)
			}
			if out.f == nil {
				res.Count("pass_but_for_known_findings_"+mode+"_"+sub, 1)
				// A few are still handed to the driver (which only counts them),
				// few enough not to crowd out fresh violations.
				k := out.known[0]
				key := "known|" + k.KF + "|" + mode
				if emitted[key] >= 1 || i%block >= kfWindow {
					continue
				}
				emitted[key]++
				sh, sf := shrink(hh, k, sameAs(k, nil))
				v := toViolation(sh, sf, kf)
				v.RunIndex, v.Seed = i, b.Seed
				res.Violations = append(res.Violations, v)
				continue
			}
			f := out.f
			res.Count("viol_"+sub+":"+mode+":"+f.Class, 1)
			if f.KF != "" {
				res.Count("trigger_"+f.KF+"_"+sub, 1)
			}
			key := f.Class + "|" + f.KF + "|" + mode
			if emitted[key] >= maxFreshPerClass {
				res.Count("violations_not_written_out", 1)
				continue
			}
			emitted[key]++
			sh, sf := hh, f
			if f.Class != "nondeterministic" {
				sh, sf = shrink(hh, f, sameAs(f, tol))
			}
			v := toViolation(sh, sf, kf)
			v.RunIndex, v.Seed = i, b.Seed
			res.Violations = append(res.Violations, v)
		}
	}
	return res
}

func (check) Replay(payload json.RawMessage) (*api.Violation, error) {
	if err := loadReaders(); err != nil {
		return nil, err
	}
	var h History
	if err := json.Unmarshal(payload, &h); err != nil {
		return nil, fmt.Errorf("C15 replay payload: %v", err)
	}
	if err := validate(&h); err != nil {
		return nil, fmt.Errorf("C15 replay payload: %v", err)
	}
	h.Arrival = arrivalOf(h.Ops)
	kf := findings.Default()
	// Same stepping-over as Run, so that a replay decides what Run decided; a
	// history whose only violations are open known findings reproduces the first of them.
	f := executeChecked(&h, 8, func(id string) bool { return kf.IsOpen("C15", id) }).first()
	if f == nil {
		return nil, nil
	}
	v := toViolation(&h, f, kf)
	return &v, nil
}

func (check) Describe() api.Description {
	return api.Description{
		Level: "exploration",
		Rule: "one evaluation = one seeded history (<= 60 ops, 2-3 registers) executed against the transaction map, the Context rename table and a bare comp.RAT; " +
			"a history is non-trivial iff it contains a rollback(s) with, for some register, uncommitted writes both older than s and not older than s, " +
			"or a commit while some register has >= 2 uncommitted writes; distinct = hash of the reference-model state sequence " +
			"(op kind, register, tag, committed write identity and in-flight (tag, write ordinal) lists per register after every op; values canonicalised to write ordinals)",
		Real: []string{
			"risc.Context transaction map: NewContext(false,..,false), TransactionWriteRegister, Commit, Rollback, Registers",
			"risc.Context rename table: NewContext(false,..,true), InitRAT, TransactionRATWrite, RATCommit, RATRollback, RATFlush (comp.RAT ring length 10)",
			"comp.RAT[int,{tag,value}] directly with ring length 2..10: Write, Read, Find, Values, FindValues",
			"risc.Parse(\"mv t6, <reg>\") + mv.Run(ctx, labels, 0, nil, tag) -> risc.registerRead as the tag-bounded reader",
		},
		Stub: []string{
			"write units (MVP-6.2/6.3/7.0 wu.go) replaced by a seeded write-back task completing pending writers in tag order per register or out of order",
			"branch unit (bu.go notifyConditionalBranchTaken/NotTaken) replaced by a seeded task issuing commit or rollback(s)",
			"execute units replaced by a seeded reader task; fetch/decode replaced by an issue stage handing out increasing tags",
		},
		Assumptions: []string{
			"tags are >= 1 and unique per history (tag 0 means 'plain read' in registerRead; the machine gives pc 0 of epoch 0 the tag 0, which is not exercised)",
			"written values are unique and non-zero, so the write a returned value came from is identified exactly",
			"'youngest' = greatest tag; within the slots a commit/rollback must yield the greatest-tag write; beyond the slots (and for plain reads) a value is accepted if it is the greatest-tag OR the latest-arrived write; beyond the slots rollbacks and tag-bounded reads are not judged",
			"a tag-bounded read is only required not to return a younger write's value; returning an older-than-necessary value is counted, not flagged",
			"a write with tag == s is not older than s and is discarded by rollback(s)",
			"architectural value = ctx.Registers (transaction map) / plain read right after RATCommit/RATRollback and ctx.Registers after RATFlush (rename table)",
			"the direct comp.RAT histories are judged against a list model of the last `length` writes per key with the predicates Context uses (tag <= t, tag < s)",
			"transaction-map histories include tag orders MVP-6.2 itself cannot produce (its control unit blocks WAW/WAR and reads with tag 0); the statement quantifies over arbitrary tag orders",
		},
		FaultKinds: []string{"rollback at tag s (among / just below / just above the tags in flight)", "commit", "flush", "out-of-order arrival", "ring wrap"},
	}
}
