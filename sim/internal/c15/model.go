package c15

import (
	"fmt"
	"strings"
)

// Op is one operation of a history.
//
//	w  : write(R, V, T)  - write-back of value V to register R by the instruction with tag T
//	r  : read(R, T)      - read of R on behalf of the instruction with tag T (T=0: plain read)
//	c  : commit
//	rb : rollback(T)     - rollback to tag s=T (the mispredicted branch's tag)
//	f  : flush
type Op struct {
	K string `json:"k"`
	R int    `json:"r,omitempty"`
	V int32  `json:"v,omitempty"`
	T int32  `json:"t,omitempty"`
}

func (o Op) String() string {
	switch o.K {
	case "w":
		return fmt.Sprintf("write(r%d,v=%d,tag=%d)", o.R, o.V, o.T)
	case "r":
		return fmt.Sprintf("read(r%d,tag=%d)", o.R, o.T)
	case "c":
		return "commit"
	case "rb":
		return fmt.Sprintf("rollback(%d)", o.T)
	case "f":
		return "flush"
	}
	return "?" + o.K
}

// History is the replay payload: one mode, one ring length, one op list.
type History struct {
	Mode string `json:"mode"` // txmap | rat | ring
	// Ring is the number of slots per register: 1 for the transaction map,
	// 10 for the Context rename table, 2..10 for a direct comp.RAT.
	Ring int `json:"ring"`
	Regs int `json:"regs"`
	// Init holds the committed value of each register before the history (0 = never written).
	Init []int32 `json:"init,omitempty"`
	// Arrival says whether the writes to every register arrive in tag order
	// ("inorder") or some register sees a younger writer first ("ooo").
	Arrival string `json:"arrival"`
	Ops     []Op   `json:"ops"`
}

func (h *History) String() string {
	var sb strings.Builder
	for i, o := range h.Ops {
		if i > 0 {
			sb.WriteString("; ")
		}
		sb.WriteString(o.String())
	}
	return sb.String()
}

func (h *History) clone() *History {
	c := *h
	c.Init = append([]int32(nil), h.Init...)
	c.Ops = append([]Op(nil), h.Ops...)
	return &c
}

// arrivalOf recomputes the Arrival attribute from the ops: "ooo" if between two
// commit/rollback points some register receives a write older than one it
// already holds.
func arrivalOf(ops []Op) string {
	maxTag := map[int]int32{}
	for _, o := range ops {
		switch o.K {
		case "w":
			if m, ok := maxTag[o.R]; ok && o.T < m {
				return "ooo"
			}
			if o.T > maxTag[o.R] {
				maxTag[o.R] = o.T
			}
		case "c", "rb":
			maxTag = map[int]int32{}
		}
	}
	return "inorder"
}

// ---------------------------------------------------------------------------
// Reference model: per register the committed value and the uncommitted
// (tag, value) writes in arrival order.

type wr struct {
	tag, val int32
	ord      int // ordinal of the write in the history (canonical identity of the value)
}

type model struct {
	committed []int32
	inflight  [][]wr
	nwrites   int
}

func newModel(regs int, init []int32) *model {
	m := &model{committed: make([]int32, regs), inflight: make([][]wr, regs)}
	for r := 0; r < regs && r < len(init); r++ {
		m.committed[r] = init[r]
	}
	return m
}

func (m *model) write(r int, val, tag int32) {
	m.inflight[r] = append(m.inflight[r], wr{tag, val, m.nwrites})
	m.nwrites++
}

// youngest returns the greatest-tag write among ws with tag < bound
// (bound <= 0: no bound).
func youngest(ws []wr, bound int32) (wr, bool) {
	var best wr
	ok := false
	for _, w := range ws {
		if bound > 0 && w.tag >= bound {
			continue
		}
		if !ok || w.tag > best.tag {
			best, ok = w, true
		}
	}
	return best, ok
}

// latest returns the most recently arrived write among ws with tag < bound.
func latest(ws []wr, bound int32) (wr, bool) {
	for i := len(ws) - 1; i >= 0; i-- {
		if bound > 0 && ws[i].tag >= bound {
			continue
		}
		return ws[i], true
	}
	return wr{}, false
}

func monotone(ws []wr) bool {
	for i := 1; i < len(ws); i++ {
		if ws[i].tag < ws[i-1].tag {
			return false
		}
	}
	return true
}

func (m *model) clear() {
	for r := range m.inflight {
		m.inflight[r] = nil
	}
}

// ---------------------------------------------------------------------------
// The machine under test (transaction map or rename table of a risc.Context,
// or an in-package fake in the sensitivity tests).

type machine interface {
	Write(reg int, val, tag int32)
	// Read is what an instruction with this tag reads (0 = plain read).
	Read(reg int, tag int32) int32
	Commit()
	Rollback(s int32)
	Flush()
	// Arch is the architectural value of reg; only called right after
	// Commit/Rollback (no uncommitted write exists).
	Arch(reg int) int32
	// Regs is the value in the register file proper (ctx.Registers).
	Regs(reg int) int32
	// Cur names the API entered last (for panic attribution).
	Cur() string
}

type finding struct {
	Class  string
	Detail string
	KF     string // known-finding id the trigger decided, "" if none
	OpIdx  int
}

// checkMachine runs h against m and decides the property op by op. It stops at
// the first violation. trace receives every value observed (for the
// determinism comparison). slots is the number of uncommitted writes per
// register the table can hold (1: transaction map, 10: rename table).
//
// tol, if non-nil, names the known findings to step over: a violation whose
// trigger decided such an id is appended to *known, the model follows the
// machine's value, and the history continues, so that a listed defect does not
// hide whatever comes after it.
func checkMachine(h *History, m machine, slots int, prefix string, trace *[]int32, tol func(string) bool, known *[]*finding) (f *finding) {
	cur := -1
	stepOver := func(fd *finding) bool {
		if fd.KF != "" && tol != nil && tol(fd.KF) {
			if known != nil {
				*known = append(*known, fd)
			}
			return true
		}
		return false
	}
	defer func() {
		if p := recover(); p != nil {
			f = &finding{
				Class:  "panic:" + m.Cur(),
				Detail: fmt.Sprintf("op %d %s panicked in %s: %v", cur, opAt(h, cur), m.Cur(), p),
				OpIdx:  cur,
			}
		}
	}()
	obs := func(v int32) int32 {
		if trace != nil {
			*trace = append(*trace, v)
		}
		return v
	}
	md := newModel(h.Regs, h.Init)
	for i, o := range h.Ops {
		cur = i
		switch o.K {
		case "w":
			m.Write(o.R, o.V, o.T)
			md.write(o.R, o.V, o.T)

		case "r":
			got := obs(m.Read(o.R, o.T))
			ws := md.inflight[o.R]
			if o.T == 0 {
				// Plain read: the youngest value. Where arrival order and tag
				// order disagree the statement is read both ways.
				if len(ws) == 0 {
					if got != md.committed[o.R] {
						return &finding{Class: prefix + "plain-read-value", OpIdx: i,
							Detail: fmt.Sprintf("op %d %s returned %d; no uncommitted write to r%d, architectural value is %d", i, o, got, o.R, md.committed[o.R])}
					}
					continue
				}
				y, _ := youngest(ws, 0)
				l, _ := latest(ws, 0)
				if got != y.val && got != l.val {
					return &finding{Class: prefix + "plain-read-value", OpIdx: i,
						Detail: fmt.Sprintf("op %d %s returned %d; youngest write of r%d is %d (greatest tag %d) / %d (latest arrival, tag %d)", i, o, got, o.R, y.val, y.tag, l.val, l.tag)}
				}
				continue
			}
			if len(ws) > slots {
				continue // beyond the table's slots nothing is promised for tag-bounded reads
			}
			for _, w := range ws {
				if w.tag > o.T && w.val == got {
					fd := &finding{Class: prefix + "read-younger", OpIdx: i,
						Detail: fmt.Sprintf("op %d %s returned %d, the value written by the younger instruction with tag %d (%d uncommitted write(s) to r%d, %d slot(s))", i, o, got, w.tag, len(ws), o.R, slots)}
					// KF-C15-4: the transaction map has no tag filter at all.
					if prefix == "" && len(ws) == 1 {
						fd.KF = "KF-C15-4"
					}
					if stepOver(fd) {
						break
					}
					return fd
				}
			}

		case "c":
			m.Commit()
			for r := 0; r < h.Regs; r++ {
				got := obs(m.Arch(r))
				ws := md.inflight[r]
				switch {
				case len(ws) == 0:
					if got != md.committed[r] {
						return &finding{Class: prefix + "commit-value", OpIdx: i,
							Detail: fmt.Sprintf("op %d commit: r%d has no uncommitted write but changed from %d to %d", i, r, md.committed[r], got)}
					}
				case len(ws) <= slots:
					y, _ := youngest(ws, 0)
					if got != y.val {
						fd := &finding{Class: prefix + "commit-value", OpIdx: i,
							Detail: fmt.Sprintf("op %d commit: r%d = %d, want %d (youngest write, tag %d) among %s [%s arrival, %d/%d slots]", i, r, got, y.val, y.tag, fmtWrites(ws), arrWord(ws), len(ws), slots)}
						// KF-C15-3: the rename table resolves "youngest" by arrival, not by tag.
						if l, _ := latest(ws, 0); prefix == "rat-" && !monotone(ws) && got == l.val {
							fd.KF = "KF-C15-3"
						}
						if !stepOver(fd) {
							return fd
						}
					}
					md.committed[r] = got
				default:
					y, _ := youngest(ws, 0)
					l, _ := latest(ws, 0)
					if got != y.val && got != l.val {
						return &finding{Class: prefix + "commit-value", OpIdx: i,
							Detail: fmt.Sprintf("op %d commit: r%d = %d with %d uncommitted writes (> %d slots); neither the greatest-tag value %d nor the latest-arrived value %d", i, r, got, len(ws), slots, y.val, l.val)}
					}
					md.committed[r] = got
				}
			}
			md.clear()

		case "rb":
			m.Rollback(o.T)
			for r := 0; r < h.Regs; r++ {
				got := obs(m.Arch(r))
				ws := md.inflight[r]
				switch {
				case len(ws) == 0:
					if got != md.committed[r] {
						return &finding{Class: prefix + "rollback-value", OpIdx: i,
							Detail: fmt.Sprintf("op %d %s: r%d has no uncommitted write but changed from %d to %d", i, o, r, md.committed[r], got)}
					}
				case len(ws) <= slots:
					y, ok := youngest(ws, o.T)
					want := md.committed[r]
					what := "unchanged (no write older than s)"
					if ok {
						want = y.val
						what = fmt.Sprintf("youngest write older than s, tag %d", y.tag)
					}
					if got != want {
						fd := &finding{Class: prefix + "rollback-value", OpIdx: i,
							Detail: fmt.Sprintf("op %d %s: r%d = %d, want %d (%s) among %s [%s arrival, %d/%d slots]", i, o, r, got, want, what, fmtWrites(ws), arrWord(ws), len(ws), slots)}
						if prefix == "rat-" {
							l, lok := latest(ws, o.T)
							switch {
							// KF-C15-2: never-written ring slots (tag 0) satisfy "tag < s".
							case !ok && got == 0 && len(ws) < slots:
								fd.KF = "KF-C15-2"
							// KF-C15-3: arrival order instead of tag order.
							case ok && lok && !monotone(ws) && got == l.val:
								fd.KF = "KF-C15-3"
							}
						}
						if !stepOver(fd) {
							return fd
						}
					}
					md.committed[r] = got
				default:
					// Beyond the slots a rollback promises nothing; follow the machine.
					md.committed[r] = got
				}
			}
			md.clear()

		case "f":
			m.Flush()
			// The register file holds the committed state (always for the
			// transaction map, after RATFlush for the rename table).
			for r := 0; r < h.Regs; r++ {
				got := obs(m.Regs(r))
				if got != md.committed[r] {
					return &finding{Class: prefix + "flush-value", OpIdx: i,
						Detail: fmt.Sprintf("op %d flush: register file r%d = %d, committed value is %d", i, r, got, md.committed[r])}
				}
			}
		}
	}
	return nil
}

func opAt(h *History, i int) string {
	if i < 0 || i >= len(h.Ops) {
		return "-"
	}
	return h.Ops[i].String()
}

func arrWord(ws []wr) string {
	if monotone(ws) {
		return "in-order"
	}
	return "out-of-order"
}

func fmtWrites(ws []wr) string {
	var sb strings.Builder
	sb.WriteByte('[')
	for i, w := range ws {
		if i > 0 {
			sb.WriteByte(' ')
		}
		if i >= 12 {
			fmt.Fprintf(&sb, "...+%d", len(ws)-i)
			break
		}
		fmt.Fprintf(&sb, "tag%d=%d", w.tag, w.val)
	}
	sb.WriteByte(']')
	return sb.String()
}

// ---------------------------------------------------------------------------
// Direct comp.RAT histories: a list model of a ring of `length` slots per key.

type unit struct {
	Tag int32
	Val int32
}

type ring interface {
	Read(k int) (unit, bool)
	Find(k int, pred func(unit) bool) (unit, bool)
	Write(k int, v unit)
	Values() map[int]unit
	FindValues(pred func(unit) bool) map[int]unit
}

// window returns the entries of a key still held by a ring of the given length.
func window(ws []wr, length int) []wr {
	if len(ws) > length {
		return ws[len(ws)-length:]
	}
	return ws
}

func modelFind(ws []wr, length int, pred func(unit) bool) (unit, bool) {
	w := window(ws, length)
	for i := len(w) - 1; i >= 0; i-- {
		u := unit{w[i].tag, w[i].val}
		if pred(u) {
			return u, true
		}
	}
	return unit{}, false
}

// checkRing drives one comp.RAT (or fake) with the history: write -> Write,
// read(tag 0) -> Read, read(tag t) -> Find(tag <= t), commit -> Values then a
// fresh ring, rollback(s) -> FindValues(tag < s) then a fresh ring, flush ->
// Values. This is exactly how risc.Context uses the table.
func checkRing(h *History, mk func(length int) ring, trace *[]int32, tol func(string) bool, known *[]*finding) (f *finding) {
	cur, api := -1, ""
	stepOver := func(fd *finding) bool {
		if fd.KF != "" && tol != nil && tol(fd.KF) {
			if known != nil {
				*known = append(*known, fd)
			}
			return true
		}
		return false
	}
	defer func() {
		if p := recover(); p != nil {
			f = &finding{Class: "panic:RAT." + api, OpIdx: cur,
				Detail: fmt.Sprintf("op %d %s panicked in comp.RAT.%s (ring length %d): %v", cur, opAt(h, cur), api, h.Ring, p)}
		}
	}()
	obs := func(u unit, ok bool) {
		if trace != nil {
			b := int32(0)
			if ok {
				b = 1
			}
			*trace = append(*trace, b, u.Tag, u.Val)
		}
	}
	L := h.Ring
	rt := mk(L)
	md := newModel(h.Regs, nil)
	cmpMap := func(i int, o Op, what string, got map[int]unit, pred func(unit) bool) *finding {
		for r := 0; r < h.Regs; r++ {
			g, gok := got[r]
			obs(g, gok)
			want, wok := unit{}, false
			if pred == nil {
				if l, ok := latest(md.inflight[r], 0); ok {
					want, wok = unit{l.tag, l.val}, true
				}
			} else {
				want, wok = modelFind(md.inflight[r], L, pred)
			}
			if g != want || gok != wok {
				cls := "rat-read"
				if pred != nil {
					cls = "rat-findvalues"
				}
				fd := &finding{Class: cls, OpIdx: i,
					Detail: fmt.Sprintf("op %d %s: comp.RAT(len %d).%s[r%d] = %s, list model says %s; entries of r%d in arrival order %s", i, o, L, what, r, fmtUnit(g, gok), fmtUnit(want, wok), r, fmtWrites(md.inflight[r]))}
				// KF-C15-2: a never-written slot (zero value) satisfies the predicate.
				if pred != nil && !wok && gok && g == (unit{}) && len(md.inflight[r]) > 0 && len(md.inflight[r]) < L && pred(unit{}) {
					fd.KF = "KF-C15-2"
				}
				if !stepOver(fd) {
					return fd
				}
			}
		}
		extra := 0
		for k := range got {
			if k < 0 || k >= h.Regs {
				extra++
			}
		}
		if extra > 0 {
			return &finding{Class: "rat-read", OpIdx: i, Detail: fmt.Sprintf("op %d %s: comp.RAT.%s returned %d key(s) never written", i, o, what, extra)}
		}
		return nil
	}
	for i, o := range h.Ops {
		cur = i
		switch o.K {
		case "w":
			api = "Write"
			rt.Write(o.R, unit{o.T, o.V})
			md.write(o.R, o.V, o.T)
		case "r":
			ws := md.inflight[o.R]
			if o.T == 0 {
				api = "Read"
				g, gok := rt.Read(o.R)
				obs(g, gok)
				want, wok := unit{}, false
				if l, ok := latest(ws, 0); ok {
					want, wok = unit{l.tag, l.val}, true
				}
				if g != want || gok != wok {
					return &finding{Class: "rat-read", OpIdx: i,
						Detail: fmt.Sprintf("op %d %s: comp.RAT(len %d).Read = %s, list model says %s", i, o, L, fmtUnit(g, gok), fmtUnit(want, wok))}
				}
				continue
			}
			api = "Find"
			t := o.T
			pred := func(u unit) bool { return u.Tag <= t }
			g, gok := rt.Find(o.R, pred)
			obs(g, gok)
			want, wok := modelFind(ws, L, pred)
			if g != want || gok != wok {
				fd := &finding{Class: "rat-find", OpIdx: i,
					Detail: fmt.Sprintf("op %d %s: comp.RAT(len %d).Find(tag<=%d) = %s, list model says %s; entries of r%d in arrival order %s", i, o, L, t, fmtUnit(g, gok), fmtUnit(want, wok), o.R, fmtWrites(ws))}
				// KF-C15-1: Find tests only the newest entry.
				if n := len(ws); n > 0 && !pred(unit{ws[n-1].tag, ws[n-1].val}) && wok && !gok {
					fd.KF = "KF-C15-1"
				}
				if !stepOver(fd) {
					return fd
				}
			}
		case "c", "f":
			api = "Values"
			if fd := cmpMap(i, o, "Values()", rt.Values(), nil); fd != nil {
				return fd
			}
			if o.K == "c" {
				rt = mk(L)
				md.clear()
			}
		case "rb":
			api = "FindValues"
			s := o.T
			pred := func(u unit) bool { return u.Tag < s }
			if fd := cmpMap(i, o, fmt.Sprintf("FindValues(tag<%d)", s), rt.FindValues(pred), pred); fd != nil {
				return fd
			}
			rt = mk(L)
			md.clear()
		}
	}
	return nil
}

func fmtUnit(u unit, ok bool) string {
	if !ok {
		return "(none)"
	}
	return fmt.Sprintf("{tag %d, value %d}", u.Tag, u.Val)
}

// ---------------------------------------------------------------------------
// History-level analysis (independent of the machine): counters, the
// non-trivial rule and the hash of the model-state sequence.

type analysis struct {
	counters   map[string]int64
	nonTrivial bool
	hash       uint64
}

func fnv(h uint64, xs ...uint64) uint64 {
	for _, x := range xs {
		for s := 0; s < 64; s += 8 {
			h ^= (x >> s) & 0xff
			h *= 1099511628211
		}
	}
	return h
}

type namedLen struct {
	name string
	n    int
}

// analyse walks the reference model over the ops. ringLens lists the slot
// counts for which wrap-arounds (a write to a register that already holds that
// many uncommitted writes) are counted.
func analyse(h *History, ringLens []namedLen) analysis {
	a := analysis{counters: map[string]int64{}, hash: 1469598103934665603}
	md := newModel(h.Regs, h.Init)
	initOrd := func(r int) uint64 { return uint64(1<<20 + r) }
	// committedOrd tracks the canonical identity of each committed value.
	committedOrd := make([]uint64, h.Regs)
	for r := range committedOrd {
		if r < len(h.Init) && h.Init[r] != 0 {
			committedOrd[r] = initOrd(r)
		}
	}
	a.hash = fnv(a.hash, uint64(h.Regs))
	for _, o := range h.Ops {
		switch o.K {
		case "w":
			a.counters["op_write"]++
			ws := md.inflight[o.R]
			if y, ok := youngest(ws, 0); ok && o.T < y.tag {
				a.counters["ooo_arrivals"]++
			}
			for _, rl := range ringLens {
				if len(ws) >= rl.n {
					a.counters["ring_wraps_"+rl.name]++
				}
			}
			md.write(o.R, o.V, o.T)
		case "r":
			a.counters["op_read"]++
			if o.T == 0 {
				a.counters["reads_plain"]++
			} else {
				hit := false
				for _, w := range md.inflight[o.R] {
					if w.tag > o.T {
						hit = true
					}
				}
				if hit {
					a.counters["reads_tag_bound_hit"]++
				}
			}
		case "c":
			a.counters["op_commit"]++
			for r := 0; r < h.Regs; r++ {
				if len(md.inflight[r]) >= 2 {
					a.nonTrivial = true
					a.counters["commits_multi_write"]++
					break
				}
			}
			for r := 0; r < h.Regs; r++ {
				if y, ok := youngest(md.inflight[r], 0); ok {
					committedOrd[r] = uint64(y.ord) + 1
				}
			}
			md.clear()
		case "rb":
			a.counters["op_rollback"]++
			split := false
			for r := 0; r < h.Regs; r++ {
				lo, hi := false, false
				for _, w := range md.inflight[r] {
					if w.tag < o.T {
						lo = true
					} else {
						hi = true
					}
				}
				if lo && hi {
					split = true
				}
				eq := false
				for _, w := range md.inflight[r] {
					if w.tag == o.T {
						eq = true
					}
				}
				if eq {
					a.counters["rollbacks_at_a_write_tag"]++
				}
			}
			if split {
				a.nonTrivial = true
				a.counters["rollbacks_splitting"]++
			}
			for r := 0; r < h.Regs; r++ {
				if y, ok := youngest(md.inflight[r], o.T); ok {
					committedOrd[r] = uint64(y.ord) + 1
				}
			}
			md.clear()
		case "f":
			a.counters["op_flush"]++
		}
		// model state after the op: op kind, bound, committed identities, in-flight (tag, identity) lists
		a.hash = fnv(a.hash, uint64(o.K[0])<<8|uint64(len(o.K)), uint64(o.R), uint64(uint32(o.T)))
		for r := 0; r < h.Regs; r++ {
			a.hash = fnv(a.hash, committedOrd[r], uint64(len(md.inflight[r])))
			for _, w := range md.inflight[r] {
				a.hash = fnv(a.hash, uint64(uint32(w.tag)), uint64(w.ord))
			}
		}
	}
	return a
}
