package c15

import (
	"fmt"
	"sync"

	"github.com/teivah/majorana/proc/comp"
	"github.com/teivah/majorana/risc"
)

// maxRegs is the number of architectural registers a history may use.
const maxRegs = 3

// ctxRatLength mirrors risc.ratLength (unexported): the ring length of the
// Context's rename table.
const ctxRatLength = 10

var regName = [maxRegs]string{"t0", "t1", "t2"}
var regType = [maxRegs]risc.RegisterType{risc.T0, risc.T1, risc.T2}

var (
	readersOnce sync.Once
	readers     [maxRegs]risc.InstructionRunner
	readerLabel [maxRegs]map[string]int32
	readersErr  error
)

// loadReaders parses the one-instruction programs `mv t6, <reg>`; their Run is
// the tag-bounded register read of the real code (risc.registerRead).
func loadReaders() error {
	readersOnce.Do(func() {
		for r := 0; r < maxRegs; r++ {
			app, err := risc.Parse("mv t6, " + regName[r])
			if err != nil {
				readersErr = fmt.Errorf("risc.Parse(mv t6, %s): %v", regName[r], err)
				return
			}
			if len(app.Instructions) != 1 {
				readersErr = fmt.Errorf("risc.Parse(mv t6, %s): %d instructions", regName[r], len(app.Instructions))
				return
			}
			readers[r] = app.Instructions[0]
			readerLabel[r] = app.Labels
		}
	})
	return readersErr
}

// ctxMachine drives a real risc.Context the way the write units, the branch
// unit and the execute units of MVP-6.2 (transaction map) and MVP-6.3+ (rename
// table) do.
type ctxMachine struct {
	ctx *risc.Context
	rat bool
	cur string
}

func newCtxMachine(rat bool, init []int32) *ctxMachine {
	ctx := risc.NewContext(false, 16, rat)
	for r, v := range init {
		if r < maxRegs && v != 0 {
			ctx.Registers[regType[r]] = v
		}
	}
	m := &ctxMachine{ctx: ctx, rat: rat}
	if rat {
		m.cur = "InitRAT"
		ctx.InitRAT()
	}
	return m
}

func (m *ctxMachine) Cur() string { return m.cur }

func (m *ctxMachine) Write(reg int, val, tag int32) {
	exe := risc.Execution{RegisterChange: true, Register: regType[reg], RegisterValue: val}
	if m.rat {
		m.cur = "TransactionRATWrite"
		m.ctx.TransactionRATWrite(exe, tag)
	} else {
		m.cur = "TransactionWriteRegister"
		m.ctx.TransactionWriteRegister(exe, tag)
	}
}

func (m *ctxMachine) Read(reg int, tag int32) int32 {
	m.cur = "mv.Run"
	exe, err := readers[reg].Run(m.ctx, readerLabel[reg], 0, nil, tag)
	if err != nil {
		panic(fmt.Sprintf("mv.Run returned an error: %v", err))
	}
	if !exe.RegisterChange || exe.Register != risc.T6 {
		panic(fmt.Sprintf("mv.Run returned %+v, not a write of t6", exe))
	}
	return exe.RegisterValue
}

func (m *ctxMachine) Commit() {
	if m.rat {
		m.cur = "RATCommit"
		m.ctx.RATCommit()
	} else {
		m.cur = "Commit"
		m.ctx.Commit()
	}
}

func (m *ctxMachine) Rollback(s int32) {
	if m.rat {
		m.cur = "RATRollback"
		m.ctx.RATRollback(s)
	} else {
		m.cur = "Rollback"
		m.ctx.Rollback(s)
	}
}

func (m *ctxMachine) Flush() {
	m.cur = "Flush"
	m.ctx.Flush()
	if m.rat {
		m.cur = "RATFlush"
		m.ctx.RATFlush()
	}
}

func (m *ctxMachine) Arch(reg int) int32 {
	if m.rat {
		// No uncommitted write exists right after RATCommit/RATRollback, so a
		// plain read goes to the committed table.
		return m.Read(reg, 0)
	}
	m.cur = "Registers"
	return m.ctx.Registers[regType[reg]]
}

func (m *ctxMachine) Regs(reg int) int32 {
	m.cur = "Registers"
	return m.ctx.Registers[regType[reg]]
}

func realRing(length int) ring { return comp.NewRAT[int, unit](length) }
