package c15

import "sort"

// shrink minimises h while test keeps returning a finding (same class, same
// known-finding trigger): truncate after the violating op, ddmin over the ops,
// drop initial values and unused registers, then renumber tags and values.
func shrink(h *History, first *finding, test func(*History) *finding) (*History, *finding) {
	best, bf := h.clone(), first
	try := func(c *History) bool {
		c.Arrival = arrivalOf(c.Ops)
		if f := test(c); f != nil {
			best, bf = c, f
			return true
		}
		return false
	}

	// 1. nothing after the violating op matters
	if bf.OpIdx >= 0 && bf.OpIdx+1 < len(best.Ops) {
		c := best.clone()
		c.Ops = c.Ops[:bf.OpIdx+1]
		try(c)
	}

	// 2. ddmin over ops
	n := 2
	for len(best.Ops) >= 2 {
		ops := best.Ops
		chunk := (len(ops) + n - 1) / n
		reduced := false
		for start := 0; start < len(ops); start += chunk {
			end := start + chunk
			if end > len(ops) {
				end = len(ops)
			}
			c := best.clone()
			c.Ops = append(append([]Op(nil), ops[:start]...), ops[end:]...)
			if len(c.Ops) == 0 {
				continue
			}
			if try(c) {
				reduced = true
				break
			}
		}
		if reduced {
			if n > 2 {
				n--
			}
			continue
		}
		if chunk == 1 {
			break
		}
		n *= 2
		if n > len(ops) {
			n = len(ops)
		}
	}
	if bf.OpIdx >= 0 && bf.OpIdx+1 < len(best.Ops) {
		c := best.clone()
		c.Ops = c.Ops[:bf.OpIdx+1]
		try(c)
	}

	// 3. initial values that do not matter
	for r := range best.Init {
		if best.Init[r] != 0 {
			c := best.clone()
			c.Init[r] = 0
			try(c)
		}
	}

	// 4. unused registers
	usedReg := make([]bool, best.Regs)
	for _, o := range best.Ops {
		if (o.K == "w" || o.K == "r") && o.R < len(usedReg) {
			usedReg[o.R] = true
		}
	}
	remap := make([]int, best.Regs)
	k := 0
	for r, u := range usedReg {
		if u {
			remap[r] = k
			k++
		} else {
			remap[r] = -1
		}
	}
	if k > 0 && k < best.Regs {
		c := best.clone()
		c.Regs = k
		c.Init = make([]int32, k)
		for r, nr := range remap {
			if nr >= 0 && r < len(best.Init) {
				c.Init[nr] = best.Init[r]
			}
		}
		for i := range c.Ops {
			if c.Ops[i].K == "w" || c.Ops[i].K == "r" {
				c.Ops[i].R = remap[c.Ops[i].R]
			}
		}
		try(c)
	}

	// 5. smaller ring (direct comp.RAT histories only)
	if best.Mode == "ring" {
		for l := 2; l < best.Ring; l++ {
			c := best.clone()
			c.Ring = l
			if try(c) {
				break
			}
		}
	}

	// 6. tags: order-isomorphic renumbering 1..m (only <, <=, == are ever evaluated on tags)
	{
		set := map[int32]bool{}
		for _, o := range best.Ops {
			if (o.K == "w" || o.K == "r" || o.K == "rb") && o.T != 0 {
				set[o.T] = true
			}
		}
		tags := make([]int32, 0, len(set))
		for t := range set {
			tags = append(tags, t)
		}
		sort.Slice(tags, func(i, j int) bool { return tags[i] < tags[j] })
		rank := map[int32]int32{}
		for i, t := range tags {
			rank[t] = int32(i + 1)
		}
		c := best.clone()
		for i := range c.Ops {
			if c.Ops[i].T != 0 {
				c.Ops[i].T = rank[c.Ops[i].T]
			}
		}
		try(c)
	}

	// 7. values: initial values 1..3, written values 11, 12, ... in arrival order
	{
		c := best.clone()
		for r := range c.Init {
			if c.Init[r] != 0 {
				c.Init[r] = int32(r + 1)
			}
		}
		v := int32(11)
		for i := range c.Ops {
			if c.Ops[i].K == "w" {
				c.Ops[i].V = v
				v++
			}
		}
		try(c)
	}
	return best, bf
}
