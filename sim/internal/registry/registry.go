// Package registry lists the implemented property checks.
package registry

import (
	"verifsim/internal/api"
	"verifsim/internal/c13"
	"verifsim/internal/c14"
	"verifsim/internal/c15"
)

func All() []api.Check {
	return []api.Check{
		c13.New(),
		c14.New(),
		c15.New(),
	}
}

func Get(id string) api.Check {
	for _, c := range All() {
		if c.ID() == id {
			return c
		}
	}
	return nil
}
