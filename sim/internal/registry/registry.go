// Package registry lists the implemented property checks.
package registry

import (
	"verifsim/internal/api"
	"verifsim/internal/c13"
	"verifsim/internal/c14"
	"verifsim/internal/c15"
)

var extra []func() []api.Check

func All() []api.Check {
	out := []api.Check{
		c13.New(),
		c14.New(),
		c15.New(),
	}
	for _, f := range extra {
		out = append(out, f()...)
	}
	return out
}

func Get(id string) api.Check {
	for _, c := range All() {
		if c.ID() == id {
			return c
		}
	}
	return nil
}
