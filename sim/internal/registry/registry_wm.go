//go:build verifoverlay

package registry

import (
	"verifsim/internal/api"
	"verifsim/internal/wm"
)

func init() {
	extra = append(extra, func() []api.Check {
		return []api.Check{wm.C01(), wm.C03(), wm.C04(), wm.C05(), wm.C06(), wm.C07(), wm.C08(), wm.C09(), wm.C10(), wm.C12()}
	})
}
