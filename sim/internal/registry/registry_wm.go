//go:build verifoverlay

package registry

import (
	"verifsim/internal/api"
	"verifsim/internal/wm"
)

func init() {
	extra = append(extra, func() []api.Check { return []api.Check{wm.C01(), wm.C07()} })
}
