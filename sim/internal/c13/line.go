package c13

import (
	"fmt"
	"strings"

	"github.com/teivah/majorana/proc/comp"
)

// lineView is a neutral copy of comp.Line (Data aliases the cache's slice; the
// harness never writes through it).
type lineView struct {
	Lo, Hi int32
	Data   []int8
}

// lineCache is the surface of comp.LRUCache the property names. The real
// adapter and the deliberately broken fakes of the self-test implement it.
type lineCache interface {
	Get(addr int32) (int8, bool)
	GetCacheLine(addr int32) ([]int8, bool)
	GetSubCacheLine(addrs []int32, n int32) (int32, []int8, bool)
	EvictCacheLine(addr int32) ([]int8, bool)
	Write(addr int32, data []int8)
	PushLine(addr int32, data []int8) []int8
	PushLineWarn(addr int32, data []int8) *lineView
	Lines() []lineView
	ExistingLines() []lineView
}

type lineFactory func(lineLen, cacheLen int) lineCache

type realLine struct{ c *comp.LRUCache }

func newRealLine(lineLen, cacheLen int) lineCache {
	return &realLine{c: comp.NewLRUCache(lineLen, cacheLen)}
}

func (r *realLine) Get(addr int32) (int8, bool) { return r.c.Get(addr) }
func (r *realLine) GetCacheLine(addr int32) ([]int8, bool) {
	return r.c.GetCacheLine(comp.AlignedAddress(addr))
}
func (r *realLine) GetSubCacheLine(addrs []int32, n int32) (int32, []int8, bool) {
	a, d, ok := r.c.GetSubCacheLine(addrs, n)
	return int32(a), d, ok
}
func (r *realLine) EvictCacheLine(addr int32) ([]int8, bool) {
	return r.c.EvictCacheLine(comp.AlignedAddress(addr))
}
func (r *realLine) Write(addr int32, data []int8) { r.c.Write(addr, data) }
func (r *realLine) PushLine(addr int32, data []int8) []int8 {
	return r.c.PushLine(comp.AlignedAddress(addr), data)
}
func (r *realLine) PushLineWarn(addr int32, data []int8) *lineView {
	l := r.c.PushLineWithEvictionWarning(comp.AlignedAddress(addr), data)
	if l == nil {
		return nil
	}
	return &lineView{Lo: int32(l.Boundary[0]), Hi: int32(l.Boundary[1]), Data: l.Data}
}
func views(ls []comp.Line) []lineView {
	out := make([]lineView, len(ls))
	for i, l := range ls {
		out[i] = lineView{Lo: int32(l.Boundary[0]), Hi: int32(l.Boundary[1]), Data: l.Data}
	}
	return out
}
func (r *realLine) Lines() []lineView         { return views(r.c.Lines()) }
func (r *realLine) ExistingLines() []lineView { return views(r.c.ExistingLines()) }

// ---------------------------------------------------------------- reference

// Recency conventions. Get and insertion always count as a use. Whether Write,
// GetCacheLine, GetSubCacheLine count is not stated by the property: the eight
// combinations are eight reference orders; a reported/observed victim refutes
// the conventions it does not match, and only a history that refutes all eight
// is an lru-order violation.
const (
	convWrite   = 1
	convGetLine = 2
	convGetSub  = 4
	numConv     = 8
)

type mline struct {
	data      []int8
	dirty     []bool // byte written by Write since the line was inserted
	condemned bool   // reported as victim by PushLineWithEvictionWarning, not yet removed
	touched   bool   // Get hit it while condemned
}

type lineExec struct {
	h       *History
	c       lineCache
	lineLen int
	cap     int
	U       int
	warn    bool
	slot    []*mline // by line index, nil = not resident
	nres    int
	orders  [numConv][]int // MRU first
	alive   [numConv]bool
	pending []int // line indices of reported victims not yet removed by the caller (FIFO)
	dup     int   // victims that were needed but reported as an already condemned line
	st      *stats
	fails   []fail
	seenSig map[string]bool
	stopped bool
	opIdx   int
	// non-triviality of this history
	evictions     int
	hitAfterWrite int
	seen          []bool // scratch for state check
}

func newLineExec(h *History, mk lineFactory, st *stats) (x *lineExec, f *fail) {
	x = &lineExec{h: h, lineLen: h.LineLen, U: h.Lines, warn: h.Mode == "warn", st: st, seenSig: map[string]bool{}}
	if h.LineLen <= 0 || h.CacheLen <= 0 || h.CacheLen%h.LineLen != 0 || h.Origin%h.LineLen != 0 || h.Origin < 0 {
		return nil, &fail{class: "bad-history", detail: "invalid geometry"}
	}
	x.cap = h.CacheLen / h.LineLen
	for _, o := range h.Ops {
		if o.Line+1 > x.U && o.K == OpPush {
			x.U = o.Line + 1
		}
	}
	if x.U < 1 {
		x.U = 1
	}
	x.slot = make([]*mline, x.U)
	x.seen = make([]bool, x.U)
	for i := range x.alive {
		x.alive[i] = true
	}
	if p := guard("NewLRUCache", func() { x.c = mk(h.LineLen, h.CacheLen) }); p != nil {
		return nil, p
	}
	return x, nil
}

func guard(name string, f func()) (p *fail) {
	defer func() {
		if r := recover(); r != nil {
			p = &fail{class: "panic:" + name, detail: fmt.Sprintf("%s panicked: %v", name, r)}
		}
	}()
	f()
	return nil
}

func fillData(fill, n int) []int8 {
	d := make([]int8, n)
	for j := range d {
		d[j] = int8(fill*5 + j*3 + (j >> 5))
	}
	return d
}

func eqI8(a, b []int8) bool {
	if len(a) != len(b) {
		return false
	}
	for i := range a {
		if a[i] != b[i] {
			return false
		}
	}
	return true
}

func short(d []int8) string {
	if len(d) <= 6 {
		return fmt.Sprint(d)
	}
	return fmt.Sprintf("[%d %d %d %d ... len %d]", d[0], d[1], d[2], d[3], len(d))
}

func (x *lineExec) resident(line int) *mline {
	if line < 0 || line >= x.U {
		return nil
	}
	return x.slot[line]
}

// lineOf maps an address to the line index of the universe covering it (ok=false outside).
func (x *lineExec) lineOf(addr int32) (int, int, bool) {
	d := int(addr) - x.h.Origin
	if d < 0 {
		return 0, 0, false
	}
	l := d / x.lineLen
	if l >= x.U {
		return 0, 0, false
	}
	return l, d % x.lineLen, true
}

func moveFront(s []int, v int) {
	for i, e := range s {
		if e == v {
			copy(s[1:i+1], s[:i])
			s[0] = v
			return
		}
	}
}

func (x *lineExec) touch(line int, bit int) {
	for c := 0; c < numConv; c++ {
		if bit == 0 || c&bit != 0 {
			moveFront(x.orders[c], line)
		}
	}
}

func (x *lineExec) insert(line int, data []int8) {
	x.slot[line] = &mline{data: data, dirty: make([]bool, len(data))}
	x.nres++
	for c := 0; c < numConv; c++ {
		x.orders[c] = append(x.orders[c], 0)
		copy(x.orders[c][1:], x.orders[c])
		x.orders[c][0] = line
	}
}

func (x *lineExec) remove(line int) {
	x.slot[line] = nil
	x.nres--
	for c := 0; c < numConv; c++ {
		s := x.orders[c]
		for i, e := range s {
			if e == line {
				x.orders[c] = append(s[:i], s[i+1:]...)
				break
			}
		}
	}
}

func (x *lineExec) lruAll(c int) int {
	s := x.orders[c]
	return s[len(s)-1]
}

// lruNC is the least recently used line that is not already condemned (-1 if none).
func (x *lineExec) lruNC(c int, except int) int {
	s := x.orders[c]
	for i := len(s) - 1; i >= 0; i-- {
		if s[i] != except && !x.slot[s[i]].condemned {
			return s[i]
		}
	}
	return -1
}

func (x *lineExec) nonCondemned() int {
	n := 0
	for _, l := range x.slot {
		if l != nil && !l.condemned {
			n++
		}
	}
	return n
}

func (x *lineExec) touchedCondemned() int {
	n := 0
	for _, l := range x.slot {
		if l != nil && l.condemned && l.touched {
			n++
		}
	}
	return n
}

func (x *lineExec) anyAlive() bool {
	for _, a := range x.alive {
		if a {
			return true
		}
	}
	return false
}

func (x *lineExec) convExpectation(f func(c int) string) string {
	var parts []string
	for c := 0; c < numConv; c++ {
		parts = append(parts, fmt.Sprintf("conv%d=%s", c, f(c)))
	}
	return strings.Join(parts, " ")
}

// applicable says whether op respects the callers' protocol in the current
// reference state; inapplicable ops are skipped (this is what keeps a history
// executable after the shrinker dropped operations).
func (x *lineExec) applicable(o Op) bool {
	switch o.K {
	case OpPush:
		return o.Line >= 0 && o.Line < x.U && x.slot[o.Line] == nil
	case OpGet:
		return o.Line >= -1 && o.Line <= x.U && o.Off >= 0 && o.Off < x.lineLen && x.h.Origin+o.Line*x.lineLen+o.Off >= -x.lineLen
	case OpWrite:
		return x.resident(o.Line) != nil && o.Off >= 0 && o.N >= 1 && o.Off+o.N <= x.lineLen
	case OpGetLine, OpEvict:
		return o.Line >= 0 && o.Line < x.U
	case OpGetSub:
		return o.Line >= 0 && o.Line < x.U && o.Off >= 0 && o.Off < x.lineLen && (o.N == 1 || o.N == 2 || o.N == 4) && x.lineLen%o.N == 0 && x.lineLen/o.N >= 1
	case OpEvictVictim:
		return x.warn && len(x.pending) > 0
	}
	return false
}

// report records a failure; it returns true if the history must stop.
func (x *lineExec) report(f *fail) bool {
	f.op = x.opIdx
	f.detail = fmt.Sprintf("op #%d %s: %s", x.opIdx, x.h.renderOp(x.h.Ops[x.opIdx]), f.detail)
	if f.sig != "" {
		if k := f.sig + "/" + f.class; !x.seenSig[k] {
			// once per history, signature and class
			x.seenSig[k] = true
			x.fails = append(x.fails, *f)
		}
		if f.sig == sigKF2 {
			// the cache is one line over capacity for good: nothing later is attributable
			x.stopped = true
			return true
		}
		return false
	}
	x.fails = append(x.fails, *f)
	x.stopped = true
	return true
}

// step executes h.Ops[i] on the real cache and the reference, and compares.
func (x *lineExec) step(i int) {
	if x.stopped {
		return
	}
	x.opIdx = i
	o := x.h.Ops[i]
	if !x.applicable(o) {
		x.st.skipped++
		return
	}
	x.st.ops[o.K]++
	x.st.executed++
	var f *fail
	switch o.K {
	case OpPush:
		if x.warn {
			f = x.doPushWarn(o)
		} else {
			f = x.doPushLine(o)
		}
	case OpGet:
		f = x.doGet(o)
	case OpWrite:
		f = x.doWrite(o)
	case OpGetLine:
		f = x.doGetLine(o)
	case OpGetSub:
		f = x.doGetSub(o)
	case OpEvict:
		f = x.doEvict(o.Line, false)
	case OpEvictVictim:
		l := x.pending[0]
		x.pending = x.pending[1:]
		f = x.doEvict(l, true)
	}
	if f != nil && x.report(f) {
		return
	}
	if f := x.checkState(); f != nil {
		x.report(f)
	}
}

func (x *lineExec) doGet(o Op) *fail {
	addr := x.h.addr(o.Line, o.Off)
	var v int8
	var ok bool
	if p := guard("Get", func() { v, ok = x.c.Get(addr) }); p != nil {
		return p
	}
	var ml *mline
	l, off, in := x.lineOf(addr)
	if in {
		ml = x.slot[l]
	}
	if ml == nil {
		x.st.misses++
		if ok {
			return &fail{class: "presence", detail: fmt.Sprintf("no resident line covers %d, Get reported present (value %d)", addr, v)}
		}
		return nil
	}
	if !ok {
		return &fail{class: "presence", detail: fmt.Sprintf("resident line %d [%d,%d) covers %d, Get reported absent", l, x.h.addr(l, 0), x.h.addr(l+1, 0), addr)}
	}
	x.st.hits++
	if ml.dirty[off] {
		x.st.hitAfterWrite++
		x.hitAfterWrite++
	}
	x.touch(l, 0)
	if ml.condemned && !ml.touched {
		ml.touched = true
		x.st.condemnedTouch++
	}
	if v != ml.data[off] {
		return &fail{class: "get-value", detail: fmt.Sprintf("expected %d (last value of byte %d since line %d was inserted), got %d", ml.data[off], addr, l, v)}
	}
	return nil
}

func (x *lineExec) doWrite(o Op) *fail {
	addr := x.h.addr(o.Line, o.Off)
	data := make([]int8, o.N)
	for i := range data {
		data[i] = int8(o.V + i)
	}
	arg := make([]int8, len(data))
	copy(arg, data)
	if p := guard("Write", func() { x.c.Write(addr, arg) }); p != nil {
		return p
	}
	ml := x.slot[o.Line]
	for i, v := range data {
		ml.data[o.Off+i] = v
		ml.dirty[o.Off+i] = true
	}
	x.touch(o.Line, convWrite)
	return nil
}

func (x *lineExec) doGetLine(o Op) *fail {
	base := x.h.addr(o.Line, 0)
	var d []int8
	var ok bool
	if p := guard("GetCacheLine", func() { d, ok = x.c.GetCacheLine(base) }); p != nil {
		return p
	}
	ml := x.slot[o.Line]
	if ml == nil {
		if ok {
			return &fail{class: "presence", detail: fmt.Sprintf("line %d is not resident, GetCacheLine reported it present", o.Line)}
		}
		return nil
	}
	if !ok {
		return &fail{class: "presence", detail: fmt.Sprintf("line %d is resident, GetCacheLine reported it absent", o.Line)}
	}
	x.st.lineHits++
	x.touch(o.Line, convGetLine)
	if !eqI8(d, ml.data) {
		return &fail{class: "line-contents", detail: fmt.Sprintf("GetCacheLine: expected %s, got %s", short(ml.data), short(d))}
	}
	return nil
}

func (x *lineExec) doGetSub(o Op) *fail {
	addr := x.h.addr(o.Line, o.Off)
	n := x.lineLen / o.N
	addrs := []int32{addr, addr + 1, addr + 2, addr + 3}
	var ra int32
	var d []int8
	var ok bool
	if p := guard("GetSubCacheLine", func() { ra, d, ok = x.c.GetSubCacheLine(addrs, int32(n)) }); p != nil {
		return p
	}
	ml := x.slot[o.Line]
	if ml == nil {
		if ok {
			return &fail{class: "sub-presence", detail: fmt.Sprintf("line %d is not resident, GetSubCacheLine reported present", o.Line)}
		}
		return nil
	}
	if !ok {
		if ml.condemned || x.dup > 0 {
			// a line being evicted may be filtered (ExistingLines view); with a
			// duplicate victim outstanding the resident-count clause decides
			return nil
		}
		f := &fail{class: "sub-presence", detail: fmt.Sprintf("line %d is resident and is not a reported victim, GetSubCacheLine reported absent", o.Line)}
		if x.touchedCondemned() > 0 {
			f.sig = sigKF3
		}
		return f
	}
	x.st.subHits++
	x.touch(o.Line, convGetSub)
	so := o.Off - o.Off%n
	if ra != x.h.addr(o.Line, so) {
		return &fail{class: "sub-address", detail: fmt.Sprintf("GetSubCacheLine: expected sub line base %d, got %d", x.h.addr(o.Line, so), ra)}
	}
	if !eqI8(d, ml.data[so:so+n]) {
		return &fail{class: "line-contents", detail: fmt.Sprintf("GetSubCacheLine: expected %s, got %s", short(ml.data[so:so+n]), short(d))}
	}
	return nil
}

func (x *lineExec) doEvict(line int, victim bool) *fail {
	base := x.h.addr(line, 0)
	var d []int8
	var ok bool
	if p := guard("EvictCacheLine", func() { d, ok = x.c.EvictCacheLine(base) }); p != nil {
		return p
	}
	ml := x.slot[line]
	var f *fail
	if ml == nil {
		if ok {
			f = &fail{class: "presence", detail: fmt.Sprintf("line %d is not resident, EvictCacheLine reported it evicted", line)}
		}
	} else {
		if !ok {
			f = &fail{class: "presence", detail: fmt.Sprintf("line %d is resident, EvictCacheLine reported nothing to evict", line)}
		} else if !eqI8(d, ml.data) {
			f = &fail{class: "evict-contents", detail: fmt.Sprintf("EvictCacheLine: expected %s, got %s", short(ml.data), short(d))}
		}
		x.remove(line)
		if victim {
			x.st.victimRemovals++
		} else {
			x.st.invalidations++
		}
	}
	return f
}

// realSet returns the line indices of the real cache's Lines() (or a failure
// if a line is not an aligned line of the universe / appears twice).
func (x *lineExec) realSet(ls []lineView) ([]bool, *fail) {
	for i := range x.seen {
		x.seen[i] = false
	}
	for _, l := range ls {
		li, off, in := x.lineOf(l.Lo)
		if !in || off != 0 || int(l.Hi-l.Lo) != x.lineLen {
			return nil, &fail{class: "presence", detail: fmt.Sprintf("Lines() holds [%d,%d) which is not an inserted line", l.Lo, l.Hi)}
		}
		if x.seen[li] {
			return nil, &fail{class: "presence", detail: fmt.Sprintf("Lines() holds line %d twice", li)}
		}
		x.seen[li] = true
	}
	return x.seen, nil
}

func (x *lineExec) doPushLine(o Op) *fail {
	base := x.h.addr(o.Line, 0)
	data := fillData(o.V, x.lineLen)
	arg := make([]int8, len(data))
	copy(arg, data)
	T := x.nres
	var ret []int8
	if p := guard("PushLine", func() { ret = x.c.PushLine(base, arg) }); p != nil {
		return p
	}
	x.insert(o.Line, data)
	var ls []lineView
	if p := guard("Lines", func() { ls = x.c.Lines() }); p != nil {
		return p
	}
	set, f := x.realSet(ls)
	if f != nil {
		return f
	}
	var displaced []int
	for li, ml := range x.slot {
		if ml != nil && !set[li] {
			displaced = append(displaced, li)
		}
	}
	for li, in := range set {
		if in && x.slot[li] == nil {
			return &fail{class: "presence", detail: fmt.Sprintf("after the insertion Lines() holds line %d which is not resident", li)}
		}
	}
	if T < x.cap {
		if len(displaced) > 0 {
			return &fail{class: "resident-count", detail: fmt.Sprintf("cache held %d of %d lines, insertion displaced line(s) %v", T, x.cap, displaced)}
		}
		if len(ret) != 0 {
			return &fail{class: "pushline-spurious-victim", detail: fmt.Sprintf("cache held %d of %d lines, PushLine reported an evicted line %s", T, x.cap, short(ret))}
		}
		return nil
	}
	x.st.capEvictions++
	x.evictions++
	if len(displaced) != 1 {
		return &fail{class: "resident-count", detail: fmt.Sprintf("insertion into a full cache (%d lines) must displace exactly one line, displaced %v: %d resident, capacity %d", T, displaced, len(ls), x.cap)}
	}
	v := displaced[0]
	before := x.alive
	for c := 0; c < numConv; c++ {
		if x.alive[c] && x.lruAll(c) != v {
			x.alive[c] = false
		}
	}
	if !x.anyAlive() {
		x.alive = before
		return &fail{class: "lru-order", detail: fmt.Sprintf("insertion into a full cache displaced line %d; least recently used line is %s", v,
			x.convExpectation(func(c int) string {
				if !before[c] {
					return "refuted-earlier"
				}
				return fmt.Sprint(x.lruAll(c))
			}))}
	}
	vd := x.slot[v].data
	x.remove(v)
	if !eqI8(ret, vd) {
		f := &fail{class: "pushline-victim-contents", detail: fmt.Sprintf("displaced line %d holds %s, PushLine reported %s", v, short(vd), short(ret))}
		// known-finding signature: the reported contents are those of the line
		// that is least recently used after the displacement
		for c := 0; c < numConv; c++ {
			if x.alive[c] && len(x.orders[c]) > 0 {
				n := x.lruAll(c)
				if eqI8(ret, x.slot[n].data) {
					f.sig = sigKF1
					f.detail += fmt.Sprintf(" = contents of line %d, the least recently used line after the displacement", n)
					break
				}
			}
		}
		return f
	}
	return nil
}

func (x *lineExec) doPushWarn(o Op) *fail {
	base := x.h.addr(o.Line, 0)
	data := fillData(o.V, x.lineLen)
	arg := make([]int8, len(data))
	copy(arg, data)
	T := x.nres
	N := x.nonCondemned()
	var rep *lineView
	if p := guard("PushLineWithEvictionWarning", func() { rep = x.c.PushLineWarn(base, arg) }); p != nil {
		return p
	}
	x.insert(o.Line, data)
	if T < x.cap {
		if rep != nil {
			return &fail{class: "pushwarn-spurious-victim", detail: fmt.Sprintf("cache held %d of %d lines, a victim [%d,%d) was reported", T, x.cap, rep.Lo, rep.Hi)}
		}
		return nil
	}
	if rep == nil {
		if N >= x.cap {
			return &fail{class: "pushwarn-missing-victim", detail: fmt.Sprintf("cache held %d lines not being evicted (capacity %d), no victim was reported", N, x.cap)}
		}
		return nil
	}
	v, off, in := x.lineOf(rep.Lo)
	if !in || off != 0 || x.slot[v] == nil || v == o.Line {
		return &fail{class: "lru-order", detail: fmt.Sprintf("reported victim [%d,%d) is not a previously resident line", rep.Lo, rep.Hi)}
	}
	before := x.alive
	for c := 0; c < numConv; c++ {
		if !x.alive[c] {
			continue
		}
		okc := x.lruAll(c) == v
		if !okc && N >= x.cap && x.lruNC(c, o.Line) == v {
			okc = true
		}
		x.alive[c] = okc
	}
	if !x.anyAlive() {
		x.alive = before
		return &fail{class: "lru-order", detail: fmt.Sprintf("insertion into a full cache reported line %d as victim; least recently used line is %s", v,
			x.convExpectation(func(c int) string {
				if !before[c] {
					return "refuted-earlier"
				}
				return fmt.Sprintf("%d|%d", x.lruAll(c), x.lruNC(c, o.Line))
			}))}
	}
	x.st.capEvictions++
	x.evictions++
	ml := x.slot[v]
	var f *fail
	if int(rep.Hi-rep.Lo) != x.lineLen || !eqI8(rep.Data, ml.data) {
		f = &fail{class: "pushwarn-victim-contents", detail: fmt.Sprintf("victim line %d [%d,%d) holds %s, reported [%d,%d) %s", v, x.h.addr(v, 0), x.h.addr(v+1, 0), short(ml.data), rep.Lo, rep.Hi, short(rep.Data))}
	}
	if ml.condemned && N >= x.cap {
		x.dup++
		x.st.dupVictims++
	}
	ml.condemned = true
	x.pending = append(x.pending, v)
	return f
}

// checkState compares the resident set, every resident byte, the resident
// count and the ExistingLines view after an operation.
func (x *lineExec) checkState() *fail {
	var ls, es []lineView
	if p := guard("Lines", func() { ls = x.c.Lines() }); p != nil {
		return p
	}
	set, f := x.realSet(ls)
	if f != nil {
		return f
	}
	if len(ls) != x.nres {
		var miss, extra []int
		for li := range x.slot {
			if x.slot[li] != nil && !set[li] {
				miss = append(miss, li)
			}
			if x.slot[li] == nil && set[li] {
				extra = append(extra, li)
			}
		}
		return &fail{class: "resident-count", detail: fmt.Sprintf("expected %d resident lines, got %d (missing %v, unexpected %v)", x.nres, len(ls), miss, extra)}
	}
	for _, l := range ls {
		li, _, _ := x.lineOf(l.Lo)
		ml := x.slot[li]
		if ml == nil {
			return &fail{class: "presence", detail: fmt.Sprintf("Lines() holds line %d which is not resident", li)}
		}
		if !eqI8(l.Data, ml.data) {
			j := 0
			for j < len(ml.data) && j < len(l.Data) && l.Data[j] == ml.data[j] {
				j++
			}
			return &fail{class: "line-contents", detail: fmt.Sprintf("line %d differs from the reference at offset %d (len %d vs %d)", li, j, len(l.Data), len(ml.data))}
		}
	}
	if len(x.pending) == 0 && x.nres > x.cap {
		f := &fail{class: "resident-count", detail: fmt.Sprintf("every reported victim has been removed, %d lines are resident, capacity is %d", x.nres, x.cap)}
		if x.dup > 0 && x.nres <= x.cap+x.dup {
			f.sig = sigKF2
			f.detail += fmt.Sprintf(" (%d insertion(s) into a full cache reported a line that was already reported and still pending)", x.dup)
		}
		return f
	}
	if len(x.pending) == 0 {
		x.dup = 0 // back within capacity with nothing outstanding: the views are checked again
	}
	if x.dup > 0 {
		return nil
	}
	if p := guard("ExistingLines", func() { es = x.c.ExistingLines() }); p != nil {
		return p
	}
	eset, f := x.realSet(es)
	if f != nil {
		f.class = "existing-lines"
		return f
	}
	var hidden []int
	for li, ml := range x.slot {
		if ml == nil && eset[li] {
			return &fail{class: "existing-lines", detail: fmt.Sprintf("ExistingLines() holds line %d which is not resident", li)}
		}
		if ml != nil && !ml.condemned && !eset[li] {
			hidden = append(hidden, li)
		}
	}
	if len(hidden) > 0 {
		f := &fail{class: "existing-lines", detail: fmt.Sprintf("ExistingLines() hides line(s) %v which are resident and are not reported victims", hidden)}
		if tc := x.touchedCondemned(); tc > 0 && len(hidden) <= tc {
			f.sig = sigKF3
			f.detail += " (a pending victim was moved to the front by Get; the view filters by position)"
		}
		return f
	}
	return nil
}

func (x *lineExec) nonTrivial() bool { return x.evictions > 0 && x.hitAfterWrite > 0 }

// runLine executes a complete recorded history.
func runLine(h *History, mk lineFactory, st *stats) []fail {
	x, f := newLineExec(h, mk, st)
	if f != nil {
		return []fail{*f}
	}
	for i := range h.Ops {
		x.step(i)
		if x.stopped {
			break
		}
	}
	return x.fails
}
