// Package c13 decides property C13 (see /verif/DESIGN.md §5): the line cache
// comp.LRUCache and the generic cache.LRUCache behave as LRU caches of a small
// executable reference model.
//
// One run index = one history. A seeded client drives the REAL cache side by
// side with the reference and compares after every operation. Everything a run
// does derives from rng.New(rng.Derive(seed, index)).
package c13

import (
	"encoding/json"
	"fmt"

	"verifsim/internal/api"
	"verifsim/internal/findings"
	"verifsim/internal/rng"
)

type check struct {
	mkLine lineFactory
	mkKV   kvFactory
}

// New returns the C13 check.
func New() api.Check { return check{mkLine: newRealLine, mkKV: newRealKV} }

func (check) ID() string { return "C13" }

func (check) Runs(tier string) int {
	if tier == "thorough" {
		return 5000000
	}
	return 50000
}

// isKV: every eighth run index drives cache.LRUCache, the others comp.LRUCache.
func isKV(i int) bool { return i%8 == 7 }

// knownFindingSampled bounds the number of TAGGED violations written into a
// Result (the driver keeps at most 200 violations per run; the tagged ones
// must not crowd out fresh ones). Every hit is still counted in
// known_finding_hits:<id>. The rule depends on the run index only.
func knownFindingSampled(i int) bool { return i < 4096 && i%32 == 0 }

const maxUntaggedPerClassPerBatch = 3

func (c check) runner() runner {
	return func(h *History) []fail {
		var st stats
		if h.Kind == "kv" {
			return runKV(h, c.mkKV, &st)
		}
		return runLine(h, c.mkLine, &st)
	}
}

func (c check) Run(b api.Batch) *api.Result {
	res := api.NewResult()
	kf := findings.Default()
	open := map[string]bool{}
	for _, id := range []string{sigKF1, sigKF2, sigKF3} {
		open[id] = kf.IsOpen("C13", id)
	}
	var st stats
	emitted := map[string]int{}
	for i := b.From; i < b.To; i++ {
		r := rng.New(rng.Derive(b.Seed, uint64(i)))
		var h *History
		var fails []fail
		nonTrivial := false
		before := st.executed
		if isKV(i) {
			var x *kvExec
			h, x, fails = genKV(r, c.mkKV, &st)
			res.Count("histories_kv", 1)
			res.Count(fmt.Sprintf("histories_kv_capacity_%d", h.Capacity), 1)
			nonTrivial = x != nil && x.nonTrivial()
		} else {
			var x *lineExec
			h, x, fails = genLine(r, c.mkLine, &st)
			res.Count(fmt.Sprintf("histories_line_%dB_%dB", h.LineLen, h.CacheLen), 1)
			res.Count("histories_mode_"+h.Mode, 1)
			if x != nil {
				nonTrivial = x.nonTrivial()
				refW, refNW, any := true, true, false
				for cv := 0; cv < numConv; cv++ {
					if x.alive[cv] {
						if cv&convWrite != 0 {
							refW = false
						} else {
							refNW = false
						}
					} else {
						any = true
					}
				}
				if any {
					res.Count("histories_refuting_some_recency_convention", 1)
				}
				if refW {
					res.Count("write_touch_convention_refuted", 1)
				}
				if refNW {
					res.Count("write_notouch_convention_refuted", 1)
				}
				if x.evictions > 0 {
					res.Count("histories_with_capacity_eviction", 1)
				}
			}
		}
		res.Evaluations++
		res.SimCycles += st.executed - before
		if nonTrivial {
			res.Count("histories_nontrivial", 1)
			res.Seen(h.hash())
		}
		if i == 0 || i == 1 || i == 7 {
			res.AddSample(map[string]any{"run_index": i, "history": h, "rendered": h.trace(-1), "violations": len(fails)}, 3)
		}
		for _, f := range fails {
			res.Count("violations_class:"+f.class, 1)
			tag := ""
			if f.sig != "" && open[f.sig] {
				tag = f.sig
				res.Count("known_finding_hits:"+tag, 1)
				if !knownFindingSampled(i) {
					continue
				}
			} else {
				if emitted[f.class] >= maxUntaggedPerClassPerBatch {
					res.Count("violations_not_written_out", 1)
					continue
				}
				emitted[f.class]++
			}
			res.Violations = append(res.Violations, c.violation(h, f, tag, i, b.Seed))
		}
	}
	for k := Kind(1); k < numKinds; k++ {
		if st.ops[k] > 0 {
			res.Count("ops_"+k.String(), st.ops[k])
		}
	}
	res.Count("ops_executed", st.executed)
	res.Count("ops_skipped_inapplicable", st.skipped)
	res.Count("fault_capacity_evictions_fired", st.capEvictions)
	res.Count("fault_invalidations_fired", st.invalidations)
	res.Count("victim_removals_by_caller", st.victimRemovals)
	res.Count("hits", st.hits)
	res.Count("misses", st.misses)
	res.Count("hits_after_write", st.hitAfterWrite)
	res.Count("getcacheline_hits", st.lineHits)
	res.Count("getsubcacheline_hits", st.subHits)
	res.Count("duplicate_victim_reports", st.dupVictims)
	res.Count("get_on_pending_victim", st.condemnedTouch)
	return res
}

// violation shrinks the history of f and builds the api.Violation.
func (c check) violation(h *History, f fail, tag string, i int, seed uint64) api.Violation {
	min, mf := shrink(h, f.class, f.sig, c.runner())
	min.ExpectClass = f.class
	min.ExpectSig = f.sig
	payload, _ := json.Marshal(min)
	detail := mf.detail + " || minimal history (" + fmt.Sprint(len(min.Ops)) + " ops): " + min.trace(-1)
	return api.Violation{Property: "C13", Class: f.class, Detail: detail, RunIndex: i, Seed: seed, Replay: payload, KnownFinding: tag}
}

func (c check) Replay(payload json.RawMessage) (*api.Violation, error) {
	var h History
	if err := json.Unmarshal(payload, &h); err != nil {
		return nil, err
	}
	if h.Kind != "line" && h.Kind != "kv" {
		return nil, fmt.Errorf("unknown history kind %q", h.Kind)
	}
	fails := c.runner()(&h)
	if len(fails) == 0 {
		return nil, nil
	}
	f := fails[0]
	if h.ExpectClass != "" {
		if t, ok := hasTarget(fails, h.ExpectClass, h.ExpectSig); ok {
			f = t
		} else {
			for _, t := range fails {
				if t.class == h.ExpectClass {
					f = t
					break
				}
			}
		}
	}
	if f.class == "bad-history" {
		return nil, fmt.Errorf("bad history: %s", f.detail)
	}
	tag := ""
	if f.sig != "" && findings.Default().IsOpen("C13", f.sig) {
		tag = f.sig
	}
	return &api.Violation{Property: "C13", Class: f.class, Detail: f.detail + " || history: " + h.trace(-1), Replay: payload, KnownFinding: tag}, nil
}

func (check) Describe() api.Description {
	return api.Description{
		Level: "exploration",
		Rule: "one evaluation = one seeded history (fill phase up to capacity, then 10..60 random operations over at most capacity+3 distinct aligned lines / keys) executed on the real cache and on the reference, compared after every operation. " +
			"A history is non-trivial iff at least one capacity eviction fired AND at least one read hit a byte (key) that had been written (put) since its line was inserted; distinct = distinct FNV-1a hash of (geometry, mode, full operation sequence with arguments) over the non-trivial histories. " +
			"Run indices with i%8==7 drive cache.LRUCache, the others comp.LRUCache with geometries 16B/64B, 64B/256B, 64B/1KB, 128B/4KB (weights 35/30/20/15), half with PushLine, half with PushLineWithEvictionWarning (35% of those with delayed victim removal, 35% of the delayed ones with overlapping insertions).",
		Real: []string{
			"github.com/teivah/majorana/proc/comp.LRUCache (NewLRUCache, Get, GetCacheLine, GetSubCacheLine, EvictCacheLine, Write, PushLine, PushLineWithEvictionWarning, ExistingLines, Lines)",
			"github.com/teivah/majorana/common/cache.LRUCache[int,int] (NewLRUCache, Get, Find, Put)",
		},
		Stub: []string{
			"the units around the caches (memory management unit, cache controller, MSI directory, control unit) are replaced by one seeded client that issues their calls, including the caller half of the eviction-warning protocol (EvictCacheLine of the reported victim, immediately or a few operations later)",
			"reference model: ordered list of resident lines + their bytes (eight recency orders, one per convention), ordered key/value list for cache.LRUCache",
		},
		Assumptions: []string{
			"Line bases are multiples of the line length and lines do not overlap (the statement's 'a resident line covers it'); a line that is resident is never inserted again (every caller checks Get/GetCacheLine first: mvp7-0/cc.go:246, mvp8-0/cc.go:417,428; the MMU variants insert on a miss).",
			"Write(addr,data) stays inside one resident line (callers write the bytes of one access, or one L1 line into the L3 line that contains it); writes to an absent line (the code panics by design) and writes running past the line end are not generated.",
			"Recency: Get and insertion are uses. Whether Write, GetCacheLine, GetSubCacheLine are uses is not stated: 8 conventions are tracked, a victim refutes the conventions it contradicts, only a history refuting all 8 is an lru-order violation. The order of Lines() is not compared, only its set and bytes.",
			"PushLine has no victim identity in its result: the displaced line is the resident line that disappeared; its contents must be what PushLine returned.",
			"PushLineWithEvictionWarning keeps the reported victim resident (Get/GetCacheLine/Write still reach it: the snoop write-back needs GetCacheLine of it) until the caller's EvictCacheLine(victim.Boundary[0]); whenever no reported victim is outstanding the resident count must be <= capacity. With a victim outstanding, a further insertion may report the LRU of all resident lines or the LRU of the lines not yet reported (both readings accepted); if fewer than capacity lines are not being evicted, reporting nothing is accepted too. Overlapping insertions are legal for the callers: mvp8-0 shares one L3 between cache controllers and removes L3 victims asynchronously through the snoop coroutine.",
			"ExistingLines()/GetSubCacheLine may or may not show a line that is a reported, not yet removed victim (don't care); they must show every other resident line and nothing else.",
			"EvictCacheLine of an arbitrary resident line models invalidation by another core; of an absent line it must report false.",
			"cache.LRUCache contract as read from lru.go, lru_test.go and cu.go:290: capacity >= 1; Put of a new key into a full cache drops the least recently used key; Put (new or existing key), Get hit and Find hit refresh recency; Find(keys) returns the least recently used key among the held keys that occur in keys (false if none) and refreshes exactly that key; keys not held are ignored. There is no observer without side effect, so the state is observed by op results and by a final sweep (len x Find(all keys) lists the order, then Get of every key).",
			"Known-finding handling: a violation matching the exact signature of KF-C13-1 or KF-C13-3 does not change cache state, the history continues (each signature is reported once per history) and any later different violation is reported; after KF-C13-2 the cache is one line over capacity for good and the history stops there. While a duplicate victim report is outstanding the ExistingLines/GetSubCacheLine visibility checks are suspended (the resident-count clause decides).",
		},
		FaultKinds: []string{
			"capacity eviction (insertion into a full cache, PushLine and PushLineWithEvictionWarning)",
			"invalidation: EvictCacheLine of an arbitrary resident line (another core's snoop evict / write-back), including a line that is a pending victim",
			"delayed victim removal: operations (Get/Write/GetCacheLine/GetSubCacheLine, also on the victim) between the eviction warning and the caller's EvictCacheLine",
			"overlapping insertions while a reported victim is still resident (shared L3 in mvp8-0)",
			"EvictCacheLine of a line that is not resident",
		},
	}
}
