// Package c13 decides property C13 (see /verif/DESIGN.md §5).
package c13

import (
	"encoding/json"

	"verifsim/internal/api"
)

type check struct{}

// New returns the C13 check.
func New() api.Check { return check{} }

func (check) ID() string { return "C13" }

func (check) Runs(tier string) int {
	if tier == "thorough" {
		return 100000
	}
	return 1000
}

func (check) Run(b api.Batch) *api.Result { return api.NewResult() }

func (check) Replay(payload json.RawMessage) (*api.Violation, error) { return nil, nil }

func (check) Describe() api.Description { return api.Description{Level: "exploration"} }
