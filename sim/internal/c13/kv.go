package c13

import (
	"fmt"

	"github.com/teivah/majorana/common/cache"
)

// kvCache is the surface of cache.LRUCache[K,V] (K = V = int here; the
// variants use K = execution unit id).
type kvCache interface {
	Get(k int) (int, bool)
	Find(keys []int) (int, bool)
	Put(k, v int)
}

type kvFactory func(capacity int) kvCache

func newRealKV(capacity int) kvCache { return cache.NewLRUCache[int, int](capacity) }

type kvEntry struct{ k, v int }

type kvExec struct {
	h       *History
	c       kvCache
	cap     int
	order   []kvEntry // least recently used first
	st      *stats
	fails   []fail
	stopped bool
	opIdx   int

	evictions     int
	hitAfterWrite int
}

func newKVExec(h *History, mk kvFactory, st *stats) (*kvExec, *fail) {
	if h.Capacity < 1 {
		return nil, &fail{class: "bad-history", detail: "capacity < 1"}
	}
	x := &kvExec{h: h, cap: h.Capacity, st: st}
	if p := guard("cache.NewLRUCache", func() { x.c = mk(h.Capacity) }); p != nil {
		return nil, p
	}
	return x, nil
}

func (x *kvExec) find(k int) int {
	for i, e := range x.order {
		if e.k == k {
			return i
		}
	}
	return -1
}

func (x *kvExec) refresh(i int) {
	e := x.order[i]
	copy(x.order[i:], x.order[i+1:])
	x.order[len(x.order)-1] = e
}

func (x *kvExec) orderKeys() []int {
	out := make([]int, len(x.order))
	for i, e := range x.order {
		out[i] = e.k
	}
	return out
}

func (x *kvExec) report(f *fail, final bool) {
	f.op = x.opIdx
	if final {
		f.detail = "final sweep after the last op: " + f.detail
	} else {
		f.detail = fmt.Sprintf("op #%d %s: %s", x.opIdx, x.h.renderOp(x.h.Ops[x.opIdx]), f.detail)
	}
	x.fails = append(x.fails, *f)
	x.stopped = true
}

func (x *kvExec) step(i int) {
	if x.stopped {
		return
	}
	x.opIdx = i
	o := x.h.Ops[i]
	switch o.K {
	case OpPut, OpKGet, OpFind:
	default:
		x.st.skipped++
		return
	}
	x.st.ops[o.K]++
	x.st.executed++
	if f := x.do(o); f != nil {
		x.report(f, false)
	}
}

func (x *kvExec) do(o Op) *fail {
	switch o.K {
	case OpPut:
		if p := guard("kv.Put", func() { x.c.Put(o.Key, o.V) }); p != nil {
			return p
		}
		if i := x.find(o.Key); i >= 0 {
			x.order[i].v = o.V
			x.refresh(i)
		} else {
			if len(x.order) == x.cap {
				x.order = x.order[1:]
				x.st.capEvictions++
				x.evictions++
			}
			x.order = append(x.order, kvEntry{o.Key, o.V})
		}
	case OpKGet:
		var v int
		var ok bool
		if p := guard("kv.Get", func() { v, ok = x.c.Get(o.Key) }); p != nil {
			return p
		}
		i := x.find(o.Key)
		if i < 0 {
			x.st.misses++
			if ok {
				return &fail{class: "kv-presence", detail: fmt.Sprintf("key %d is not held (held, LRU first: %v), Get reported present", o.Key, x.orderKeys())}
			}
			return nil
		}
		if !ok {
			return &fail{class: "kv-presence", detail: fmt.Sprintf("key %d is held (held, LRU first: %v), Get reported absent", o.Key, x.orderKeys())}
		}
		x.st.hits++
		x.st.hitAfterWrite++
		x.hitAfterWrite++
		want := x.order[i].v
		x.refresh(i)
		if v != want {
			return &fail{class: "kv-value", detail: fmt.Sprintf("key %d: expected last Put value %d, got %d", o.Key, want, v)}
		}
	case OpFind:
		var k int
		var ok bool
		arg := append([]int(nil), o.Keys...)
		if p := guard("kv.Find", func() { k, ok = x.c.Find(arg) }); p != nil {
			return p
		}
		want := -1
		for i, e := range x.order {
			in := false
			for _, q := range o.Keys {
				if q == e.k {
					in = true
					break
				}
			}
			if in {
				want = i
				break
			}
		}
		if want < 0 {
			if ok {
				return &fail{class: "kv-find", detail: fmt.Sprintf("none of %v is held (held, LRU first: %v), Find reported %d", o.Keys, x.orderKeys(), k)}
			}
			return nil
		}
		wk := x.order[want].k
		held := x.orderKeys()
		x.refresh(want)
		if !ok || k != wk {
			return &fail{class: "kv-find", detail: fmt.Sprintf("least recently used of %v among held keys (LRU first: %v) is %d, Find reported (%d,%v)", o.Keys, held, wk, k, ok)}
		}
	}
	return nil
}

// finish observes the whole state through the only observers there are:
// Find(universe) repeated len times lists the recency order, then Get(k) of
// every key of the universe gives presence, values and the number of entries.
func (x *kvExec) finish() {
	if x.stopped {
		return
	}
	x.opIdx = len(x.h.Ops)
	U := x.h.Keys
	for _, o := range x.h.Ops {
		if o.Key+1 > U {
			U = o.Key + 1
		}
	}
	all := make([]int, U)
	for i := range all {
		all[i] = i
	}
	wantOrder := x.orderKeys()
	var got []int
	for i := 0; i < len(x.order); i++ {
		var k int
		var ok bool
		if p := guard("kv.Find", func() { k, ok = x.c.Find(all) }); p != nil {
			x.report(p, true)
			return
		}
		if !ok {
			break
		}
		got = append(got, k)
	}
	// model: a full rotation leaves the order unchanged
	same := len(got) == len(wantOrder)
	for i := 0; same && i < len(got); i++ {
		same = got[i] == wantOrder[i]
	}
	if !same {
		x.report(&fail{class: "kv-lru-order", detail: fmt.Sprintf("recency order (LRU first) expected %v, successive Find(all keys) listed %v", wantOrder, got)}, true)
		return
	}
	present := 0
	for k := 0; k < U; k++ {
		var v int
		var ok bool
		if p := guard("kv.Get", func() { v, ok = x.c.Get(k) }); p != nil {
			x.report(p, true)
			return
		}
		i := x.find(k)
		if ok {
			present++
		}
		if ok != (i >= 0) {
			x.report(&fail{class: "kv-presence", detail: fmt.Sprintf("key %d: expected held=%v, Get reported %v (held, LRU first: %v)", k, i >= 0, ok, wantOrder)}, true)
			return
		}
		if ok && v != x.order[i].v {
			x.report(&fail{class: "kv-value", detail: fmt.Sprintf("key %d: expected last Put value %d, got %d", k, x.order[i].v, v)}, true)
			return
		}
		if i >= 0 {
			x.refresh(i)
		}
	}
	if present > x.cap {
		x.report(&fail{class: "kv-capacity", detail: fmt.Sprintf("%d keys held, capacity %d", present, x.cap)}, true)
	}
}

func (x *kvExec) nonTrivial() bool { return x.evictions > 0 && x.hitAfterWrite > 0 }

func runKV(h *History, mk kvFactory, st *stats) []fail {
	x, f := newKVExec(h, mk, st)
	if f != nil {
		return []fail{*f}
	}
	for i := range h.Ops {
		x.step(i)
		if x.stopped {
			break
		}
	}
	x.finish()
	return x.fails
}
