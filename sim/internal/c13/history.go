package c13

import (
	"fmt"
	"strings"
)

// Kind is the kind of one operation of a history.
type Kind uint8

const (
	OpPush        Kind = iota + 1 // insert a non-resident line (PushLine or PushLineWithEvictionWarning, by History.Mode)
	OpGet                         // Get(addr): byte read
	OpWrite                       // Write(addr, data) inside one resident line
	OpGetLine                     // GetCacheLine(base)
	OpGetSub                      // GetSubCacheLine(addrs, lineLen/N)
	OpEvict                       // EvictCacheLine(base) of an arbitrary line: invalidation by another core
	OpEvictVictim                 // the caller's EvictCacheLine of the oldest victim reported by PushLineWithEvictionWarning
	OpPut                         // kv: Put(key, v)
	OpKGet                        // kv: Get(key)
	OpFind                        // kv: Find(keys)
	numKinds
)

var kindNames = [...]string{"", "push", "get", "write", "getline", "getsub", "evict", "evictvictim", "put", "kget", "find"}

func (k Kind) String() string {
	if int(k) < len(kindNames) {
		return kindNames[k]
	}
	return fmt.Sprintf("kind%d", k)
}

func (k Kind) MarshalText() ([]byte, error) { return []byte(k.String()), nil }

func (k *Kind) UnmarshalText(b []byte) error {
	s := string(b)
	for i, n := range kindNames {
		if i > 0 && n == s {
			*k = Kind(i)
			return nil
		}
	}
	return fmt.Errorf("unknown op %q", s)
}

// Op is one operation. Line-cache addresses are geometry relative:
// addr = Origin + Line*LineLen + Off, so that a history stays meaningful when
// the shrinker changes the geometry.
type Op struct {
	K    Kind  `json:"op"`
	Line int   `json:"line,omitempty"` // line index (may be -1 or >= Lines for addresses no line ever covers)
	Off  int   `json:"off,omitempty"`  // byte offset inside the line
	N    int   `json:"n,omitempty"`    // write: number of bytes; getsub: divisor (sub line = LineLen/N)
	V    int   `json:"v,omitempty"`    // push: fill id; write: first value (byte i is int8(V+i)); put: value
	Key  int   `json:"key,omitempty"`  // kv key
	Keys []int `json:"keys,omitempty"` // kv Find argument
}

// History is the replay payload: geometry + the full operation list.
type History struct {
	Kind     string `json:"kind"` // "line" (comp.LRUCache) | "kv" (cache.LRUCache)
	LineLen  int    `json:"line_len,omitempty"`
	CacheLen int    `json:"cache_len,omitempty"`
	Origin   int    `json:"origin,omitempty"` // address of line 0, a multiple of LineLen
	Lines    int    `json:"lines,omitempty"`  // universe: lines 0..Lines-1 may be inserted
	Mode     string `json:"mode,omitempty"`   // "pushline" | "warn"
	Capacity int    `json:"capacity,omitempty"`
	Keys     int    `json:"keys,omitempty"` // kv universe: keys 0..Keys-1 (Find may also name Keys)
	Ops      []Op   `json:"ops"`
	// ExpectClass / ExpectSig say which of the violations of this history the
	// replay is about (a history may run past a known-finding signature).
	ExpectClass string `json:"expect_class,omitempty"`
	ExpectSig   string `json:"expect_sig,omitempty"`
}

func (h *History) clone() *History {
	c := *h
	c.Ops = make([]Op, len(h.Ops))
	copy(c.Ops, h.Ops)
	return &c
}

func (h *History) addr(line, off int) int32 {
	return int32(h.Origin + line*h.LineLen + off)
}

func (h *History) renderOp(o Op) string {
	switch o.K {
	case OpPush:
		f := "PushLine"
		if h.Mode == "warn" {
			f = "PushLineWithEvictionWarning"
		}
		return fmt.Sprintf("%s(base=%d /*line %d*/, fill#%d)", f, h.addr(o.Line, 0), o.Line, o.V)
	case OpGet:
		return fmt.Sprintf("Get(%d /*line %d+%d*/)", h.addr(o.Line, o.Off), o.Line, o.Off)
	case OpWrite:
		return fmt.Sprintf("Write(%d /*line %d+%d*/, %d bytes from %d)", h.addr(o.Line, o.Off), o.Line, o.Off, o.N, int8(o.V))
	case OpGetLine:
		return fmt.Sprintf("GetCacheLine(%d /*line %d*/)", h.addr(o.Line, 0), o.Line)
	case OpGetSub:
		n := 0
		if o.N > 0 {
			n = h.LineLen / o.N
		}
		return fmt.Sprintf("GetSubCacheLine([%d..] /*line %d+%d*/, %d)", h.addr(o.Line, o.Off), o.Line, o.Off, n)
	case OpEvict:
		return fmt.Sprintf("EvictCacheLine(%d /*line %d, invalidation*/)", h.addr(o.Line, 0), o.Line)
	case OpEvictVictim:
		return "EvictCacheLine(<oldest reported victim>)"
	case OpPut:
		return fmt.Sprintf("Put(%d,%d)", o.Key, o.V)
	case OpKGet:
		return fmt.Sprintf("Get(%d)", o.Key)
	case OpFind:
		return fmt.Sprintf("Find(%v)", o.Keys)
	}
	return o.K.String()
}

func (h *History) header() string {
	if h.Kind == "kv" {
		return fmt.Sprintf("cache.LRUCache[int,int] capacity=%d", h.Capacity)
	}
	return fmt.Sprintf("comp.LRUCache line=%dB cache=%dB (%d lines) origin=%d mode=%s", h.LineLen, h.CacheLen, h.CacheLen/h.LineLen, h.Origin, h.Mode)
}

// trace renders the history up to and including op `upto` (all if < 0).
func (h *History) trace(upto int) string {
	var b strings.Builder
	b.WriteString(h.header())
	b.WriteString(": ")
	n := len(h.Ops)
	if upto >= 0 && upto+1 < n {
		n = upto + 1
	}
	from := 0
	if n > 24 {
		from = n - 24
		fmt.Fprintf(&b, "... %d earlier ops ...; ", from)
	}
	for i := from; i < n; i++ {
		if i > from {
			b.WriteString("; ")
		}
		fmt.Fprintf(&b, "#%d %s", i, h.renderOp(h.Ops[i]))
	}
	return b.String()
}

// hash is the identity of the op sequence (FNV-1a over all fields).
func (h *History) hash() uint64 {
	var x uint64 = 1469598103934665603
	mixin := func(v int) {
		u := uint64(int64(v))
		for i := 0; i < 8; i++ {
			x ^= u & 0xff
			x *= 1099511628211
			u >>= 8
		}
	}
	for i := 0; i < len(h.Kind); i++ {
		mixin(int(h.Kind[i]))
	}
	for i := 0; i < len(h.Mode); i++ {
		mixin(int(h.Mode[i]))
	}
	mixin(h.LineLen)
	mixin(h.CacheLen)
	mixin(h.Origin)
	mixin(h.Capacity)
	for _, o := range h.Ops {
		mixin(int(o.K))
		mixin(o.Line)
		mixin(o.Off)
		mixin(o.N)
		mixin(o.V)
		mixin(o.Key)
		mixin(len(o.Keys))
		for _, k := range o.Keys {
			mixin(k)
		}
	}
	return x
}

// fail is one refutation of the reference model by the real component.
type fail struct {
	class  string
	detail string
	sig    string // "" or the id of the known-finding signature it matches exactly
	op     int
}

// stats are the per-batch counters (all additive).
type stats struct {
	ops            [numKinds]int64
	skipped        int64
	executed       int64
	capEvictions   int64
	invalidations  int64
	victimRemovals int64
	hits           int64
	misses         int64
	hitAfterWrite  int64
	subHits        int64
	lineHits       int64
	dupVictims     int64
	condemnedTouch int64
}

const (
	sigKF1 = "KF-C13-1" // PushLine on a full cache returns the contents of the line that is LRU *after* the displacement
	sigKF2 = "KF-C13-2" // a second PushLineWithEvictionWarning while a victim is pending reports the same victim again: one line over capacity for good
	sigKF3 = "KF-C13-3" // ExistingLines/GetSubCacheLine hide by position: after Get on the pending victim they hide a line that is not being evicted
)
