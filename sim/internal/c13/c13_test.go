package c13

import (
	"encoding/json"
	"reflect"
	"testing"

	"verifsim/internal/api"
)

// ------------------------------------------------------------ fake line cache

type fl struct {
	lo        int32
	data      []int8
	condemned bool
}

// fakeLine is a correct line LRU (it even tracks reported victims by identity)
// with switchable defects, to show that the oracle is sensitive.
type fakeLine struct {
	lineLen, cap int
	lines        []*fl // MRU first
	bug          string
	ghost        []*fl
}

func fakeLineFactory(bug string) lineFactory {
	return func(lineLen, cacheLen int) lineCache {
		return &fakeLine{lineLen: lineLen, cap: cacheLen / lineLen, bug: bug}
	}
}

func (c *fakeLine) idx(addr int32) int {
	for i, l := range c.lines {
		if addr >= l.lo && addr < l.lo+int32(c.lineLen) {
			return i
		}
	}
	return -1
}

func (c *fakeLine) front(i int) {
	l := c.lines[i]
	copy(c.lines[1:i+1], c.lines[:i])
	c.lines[0] = l
}

func (c *fakeLine) Get(addr int32) (int8, bool) {
	i := c.idx(addr)
	if i < 0 {
		if c.bug == "phantom" {
			for _, g := range c.ghost {
				if addr >= g.lo && addr < g.lo+int32(c.lineLen) {
					return g.data[addr-g.lo], true
				}
			}
		}
		return 0, false
	}
	l := c.lines[i]
	if c.bug != "no-touch-on-get" {
		c.front(i)
	}
	return l.data[addr-l.lo], true
}

func (c *fakeLine) GetCacheLine(addr int32) ([]int8, bool) {
	i := c.idx(addr)
	if i < 0 {
		return nil, false
	}
	return c.lines[i].data, true
}

func (c *fakeLine) GetSubCacheLine(addrs []int32, n int32) (int32, []int8, bool) {
	i := c.idx(addrs[0])
	if i < 0 || c.lines[i].condemned {
		return 0, nil, false
	}
	l := c.lines[i]
	a := addrs[0] - addrs[0]%n
	return a, append([]int8(nil), l.data[a-l.lo:a-l.lo+n]...), true
}

func (c *fakeLine) EvictCacheLine(addr int32) ([]int8, bool) {
	i := c.idx(addr)
	if i < 0 {
		return nil, false
	}
	l := c.lines[i]
	c.lines = append(c.lines[:i], c.lines[i+1:]...)
	c.ghost = append(c.ghost, l)
	return l.data, true
}

func (c *fakeLine) Write(addr int32, data []int8) {
	i := c.idx(addr)
	if i < 0 {
		panic("cache line doesn't exist")
	}
	l := c.lines[i]
	for j, v := range data {
		if c.bug == "stale-write" && j == len(data)-1 && len(data) > 1 {
			continue
		}
		l.data[int(addr-l.lo)+j] = v
	}
	if c.bug == "write-touches" {
		c.front(i)
	}
}

func (c *fakeLine) PushLine(addr int32, data []int8) []int8 {
	c.lines = append([]*fl{{lo: addr, data: data}}, c.lines...)
	if len(c.lines) <= c.cap || c.bug == "never-evict" {
		return nil
	}
	v := len(c.lines) - 1
	if c.bug == "evict-mru" {
		v = 1
	}
	l := c.lines[v]
	c.lines = append(c.lines[:v], c.lines[v+1:]...)
	c.ghost = append(c.ghost, l)
	switch c.bug {
	case "kf1":
		return c.lines[len(c.lines)-1].data
	case "contents-of-new-line":
		return data
	}
	return l.data
}

func (c *fakeLine) PushLineWarn(addr int32, data []int8) *lineView {
	c.lines = append([]*fl{{lo: addr, data: data}}, c.lines...)
	n := 0
	for _, l := range c.lines {
		if !l.condemned {
			n++
		}
	}
	if n <= c.cap {
		return nil
	}
	for k := len(c.lines) - 1; k > 0; k-- {
		i := k // least recently used first
		if c.bug == "evict-mru" {
			i = len(c.lines) - k
		}
		l := c.lines[i]
		if !l.condemned {
			l.condemned = true
			return &lineView{Lo: l.lo, Hi: l.lo + int32(c.lineLen), Data: l.data}
		}
	}
	return nil
}

func (c *fakeLine) view(all bool) []lineView {
	var out []lineView
	for _, l := range c.lines {
		if all || !l.condemned {
			out = append(out, lineView{Lo: l.lo, Hi: l.lo + int32(c.lineLen), Data: l.data})
		}
	}
	return out
}

func (c *fakeLine) Lines() []lineView         { return c.view(true) }
func (c *fakeLine) ExistingLines() []lineView { return c.view(false) }

// ------------------------------------------------------------------ fake kv

type fakeKV struct {
	cap   int
	order []kvEntry // LRU first
	bug   string
}

func fakeKVFactory(bug string) kvFactory {
	return func(capacity int) kvCache { return &fakeKV{cap: capacity, bug: bug} }
}

func (c *fakeKV) idx(k int) int {
	for i, e := range c.order {
		if e.k == k {
			return i
		}
	}
	return -1
}

func (c *fakeKV) refresh(i int) {
	e := c.order[i]
	c.order = append(append(c.order[:i:i], c.order[i+1:]...), e)
}

func (c *fakeKV) Get(k int) (int, bool) {
	i := c.idx(k)
	if i < 0 {
		return 0, false
	}
	v := c.order[i].v
	if c.bug != "no-refresh-on-get" {
		c.refresh(i)
	}
	return v, true
}

func (c *fakeKV) Find(keys []int) (int, bool) {
	pick := -1
	for i, e := range c.order {
		for _, q := range keys {
			if q == e.k {
				if pick < 0 || c.bug == "find-mru" {
					pick = i
				}
			}
		}
	}
	if pick < 0 {
		return 0, false
	}
	k := c.order[pick].k
	c.refresh(pick)
	return k, true
}

func (c *fakeKV) Put(k, v int) {
	if i := c.idx(k); i >= 0 {
		c.order[i].v = v
		c.refresh(i)
		return
	}
	if len(c.order) >= c.cap && c.bug != "kv-never-evict" {
		if c.bug == "kv-evict-mru" {
			c.order = c.order[:len(c.order)-1]
		} else {
			c.order = c.order[1:]
		}
	}
	c.order = append(c.order, kvEntry{k, v})
}

// -------------------------------------------------------------------- tests

func runWith(t *testing.T, lineBug, kvBug string, n int) *api.Result {
	t.Helper()
	t.Setenv("VERIF_DIR", t.TempDir())
	c := check{mkLine: fakeLineFactory(lineBug), mkKV: fakeKVFactory(kvBug)}
	return c.Run(api.Batch{Property: "C13", Tier: "quick", Seed: 12345, From: 0, To: n})
}

func TestCorrectFakesSatisfyTheOracle(t *testing.T) {
	for _, bug := range []string{"", "write-touches"} {
		res := runWith(t, bug, "", 6000)
		for _, v := range res.Violations {
			t.Fatalf("correct fake (%q) refuted: %s: %s", bug, v.Class, v.Detail)
		}
		if res.Counters["histories_nontrivial"] < 2000 || res.Counters["fault_capacity_evictions_fired"] == 0 ||
			res.Counters["fault_invalidations_fired"] == 0 || res.Counters["duplicate_victim_reports"] != 0 {
			t.Fatalf("exploration too weak: %v", res.Counters)
		}
		if bug == "write-touches" && res.Counters["write_notouch_convention_refuted"] == 0 {
			t.Fatalf("a cache whose Write counts as a use never refuted the other convention")
		}
		if bug == "" && res.Counters["write_touch_convention_refuted"] == 0 {
			t.Fatalf("a cache whose Write is not a use never refuted the write-touches convention")
		}
	}
}

func TestOracleCatchesBrokenCaches(t *testing.T) {
	cases := []struct {
		lineBug, kvBug string
		classes        []string // one of them must be reported
		maxOps         int
	}{
		{"no-touch-on-get", "", []string{"lru-order"}, 8},
		{"evict-mru", "", []string{"lru-order"}, 6},
		{"stale-write", "", []string{"line-contents", "get-value"}, 4},
		{"never-evict", "", []string{"resident-count"}, 4},
		{"phantom", "", []string{"presence"}, 4},
		{"contents-of-new-line", "", []string{"pushline-victim-contents"}, 5},
		{"", "no-refresh-on-get", []string{"kv-presence", "kv-find", "kv-lru-order"}, 6},
		{"", "kv-evict-mru", []string{"kv-presence", "kv-find", "kv-lru-order"}, 6},
		{"", "find-mru", []string{"kv-find"}, 4},
		{"", "kv-never-evict", []string{"kv-presence", "kv-capacity", "kv-find", "kv-lru-order"}, 6},
	}
	for _, tc := range cases {
		res := runWith(t, tc.lineBug, tc.kvBug, 4000)
		c := check{mkLine: fakeLineFactory(tc.lineBug), mkKV: fakeKVFactory(tc.kvBug)}
		found := false
		for _, v := range res.Violations {
			if v.KnownFinding != "" {
				t.Fatalf("%s/%s: tagged although no finding is open", tc.lineBug, tc.kvBug)
			}
			for _, cl := range tc.classes {
				if v.Class != cl {
					continue
				}
				var h History
				if err := json.Unmarshal(v.Replay, &h); err != nil {
					t.Fatal(err)
				}
				if h.ExpectSig != "" {
					continue // must be caught as something that is NOT a known-finding signature
				}
				found = true
				if len(h.Ops) > tc.maxOps {
					t.Errorf("%s/%s: %s not minimal: %d ops: %s", tc.lineBug, tc.kvBug, v.Class, len(h.Ops), v.Detail)
				}
				rv, err := c.Replay(v.Replay)
				if err != nil || rv == nil || rv.Class != v.Class {
					t.Errorf("%s/%s: replay does not reproduce %s: %v %v", tc.lineBug, tc.kvBug, v.Class, rv, err)
				}
				// the real components must not show this violation on the same history
				if rr, _ := New().Replay(v.Replay); rr != nil && rr.Class == v.Class && tc.lineBug != "contents-of-new-line" {
					t.Errorf("%s/%s: minimal history also refutes the real cache: %s", tc.lineBug, tc.kvBug, rr.Detail)
				}
			}
		}
		if !found {
			t.Errorf("%s/%s: oracle reported none of %v (reported: %v)", tc.lineBug, tc.kvBug, tc.classes, res.Counters)
		}
	}
}

// A fake with exactly the PushLine defect of the tree gets the KF-C13-1
// signature; a different wrong answer of the same class does not.
func TestKnownFindingSignatureIsNarrow(t *testing.T) {
	sigs := func(bug string) map[string]int {
		res := runWith(t, bug, "", 3000)
		m := map[string]int{}
		for _, v := range res.Violations {
			var h History
			json.Unmarshal(v.Replay, &h)
			m[v.Class+"/"+h.ExpectSig]++
		}
		return m
	}
	a := sigs("kf1")
	if a["pushline-victim-contents/"+sigKF1] == 0 || a["pushline-victim-contents/"] != 0 {
		t.Fatalf("kf1 fake: %v", a)
	}
	b := sigs("contents-of-new-line")
	if b["pushline-victim-contents/"] == 0 {
		t.Fatalf("a different wrong victim content must stay untagged: %v", b)
	}
}

func TestRealTreeOnlyKnownSignatures(t *testing.T) {
	t.Setenv("VERIF_DIR", t.TempDir())
	res := New().Run(api.Batch{Property: "C13", Tier: "quick", Seed: 99, From: 0, To: 8000})
	for _, v := range res.Violations {
		var h History
		if err := json.Unmarshal(v.Replay, &h); err != nil {
			t.Fatal(err)
		}
		if h.ExpectSig == "" {
			t.Errorf("violation outside the known-finding signatures: %s: %s", v.Class, v.Detail)
		}
		rv, err := New().Replay(v.Replay)
		if err != nil || rv == nil || rv.Class != v.Class {
			t.Errorf("replay does not reproduce %s: %v %v", v.Class, rv, err)
		}
	}
}

func TestDeterministicAndPartitionIndependent(t *testing.T) {
	t.Setenv("VERIF_DIR", t.TempDir())
	whole := New().Run(api.Batch{Seed: 7, From: 0, To: 3000})
	again := New().Run(api.Batch{Seed: 7, From: 0, To: 3000})
	if whole.Evaluations != again.Evaluations || !reflect.DeepEqual(whole.Counters, again.Counters) || !reflect.DeepEqual(whole.Distinct, again.Distinct) || whole.SimCycles != again.SimCycles {
		t.Fatal("two runs with the same seed differ")
	}
	parts := api.NewResult()
	for _, r := range [][2]int{{0, 1}, {1, 700}, {700, 1999}, {1999, 3000}} {
		parts.Merge(New().Run(api.Batch{Seed: 7, From: r[0], To: r[1]}), 3, 1000000)
	}
	delete(parts.Counters, "violations_not_written_out")
	delete(whole.Counters, "violations_not_written_out")
	if whole.Evaluations != parts.Evaluations || !reflect.DeepEqual(whole.Counters, parts.Counters) || !reflect.DeepEqual(whole.Distinct, parts.Distinct) || whole.SimCycles != parts.SimCycles {
		t.Fatalf("result depends on the partition:\n%v\n%v", whole.Counters, parts.Counters)
	}
}
