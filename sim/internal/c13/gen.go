package c13

import (
	"verifsim/internal/rng"
)

type geometry struct{ line, cache int }

var geometries = []geometry{{16, 64}, {64, 256}, {64, 1024}, {128, 4096}}
var geometryWeights = []int{35, 30, 20, 15}

const maxRandomOps = 60

// genLine generates one line-cache history while executing it: the next
// operation is chosen from the reference state (so that callers' preconditions
// hold: no insertion of a resident line, writes inside one resident line).
func genLine(r *rng.R, mk lineFactory, st *stats) (*History, *lineExec, []fail) {
	g := geometries[r.Pick(geometryWeights)]
	h := &History{Kind: "line", LineLen: g.line, CacheLen: g.cache, Mode: "pushline"}
	capLines := g.cache / g.line
	h.Lines = capLines + 3
	if r.Bool() {
		h.Mode = "warn"
	}
	deferred := h.Mode == "warn" && r.Chance(35, 100)
	overlap := deferred && r.Chance(35, 100)
	switch r.Intn(4) {
	case 0:
		h.Origin = 0
	case 1:
		h.Origin = g.line * r.Range(1, 8)
	case 2:
		h.Origin = g.line * r.Range(100, 4000)
	default:
		h.Origin = 0
	}
	x, f := newLineExec(h, mk, st)
	if f != nil {
		return h, nil, []fail{*f}
	}
	fill := r.Range(1, 40)
	wv := r.Range(0, 255)
	emit := func(o Op) {
		h.Ops = append(h.Ops, o)
		x.step(len(h.Ops) - 1)
	}
	// fill phase: bring the cache to (almost) full so that the random phase
	// meets capacity evictions even at 32 lines
	pre := 0
	if !r.Chance(20, 100) {
		pre = capLines - r.Intn(3)
	}
	s := r.Intn(h.Lines)
	for j := 0; j < pre && !x.stopped; j++ {
		emit(Op{K: OpPush, Line: (s + j) % h.Lines, V: fill})
		fill++
		if x.warn {
			for len(x.pending) > 0 && !x.stopped {
				emit(Op{K: OpEvictVictim})
			}
		}
	}
	var written [][2]int // (line, off) of recent writes
	pickOff := func() int {
		switch r.Intn(5) {
		case 0:
			return 0
		case 1:
			return x.lineLen - 1
		default:
			return r.Intn(x.lineLen)
		}
	}
	pickResident := func() int {
		ord := x.orders[0]
		n := len(ord)
		if n == 0 {
			return -1
		}
		switch r.Intn(4) {
		case 0, 1:
			k := 4
			if k > n {
				k = n
			}
			return ord[n-1-r.Intn(k)]
		case 2:
			k := 2
			if k > n {
				k = n
			}
			return ord[r.Intn(k)]
		default:
			return ord[r.Intn(n)]
		}
	}
	pickNonResident := func() int {
		cnt := 0
		for l := 0; l < x.U; l++ {
			if x.slot[l] == nil {
				cnt++
			}
		}
		if cnt == 0 {
			return -1
		}
		k := r.Intn(cnt)
		for l := 0; l < x.U; l++ {
			if x.slot[l] == nil {
				if k == 0 {
					return l
				}
				k--
			}
		}
		return -1
	}
	weights := []int{0, 22 /*push*/, 30 /*get*/, 20 /*write*/, 6 /*getline*/, 9 /*getsub*/, 7 /*evict*/}
	nops := r.Range(10, maxRandomOps)
	for n := 0; n < nops && !x.stopped; n++ {
		if len(x.pending) > 0 {
			if !deferred || r.Chance(40, 100) || len(x.pending) > 2 {
				emit(Op{K: OpEvictVictim})
				continue
			}
		}
		k := Kind(r.Pick(weights))
		if k == OpPush && len(x.pending) > 0 && !overlap {
			k = OpGet
		}
		switch k {
		case OpPush:
			l := pickNonResident()
			if l < 0 {
				continue
			}
			emit(Op{K: OpPush, Line: l, V: fill})
			fill++
		case OpGet:
			switch {
			case len(written) > 0 && r.Chance(35, 100):
				w := written[r.Intn(len(written))]
				emit(Op{K: OpGet, Line: w[0], Off: w[1]})
			case r.Chance(8, 100):
				// an address no line of the universe covers
				if r.Bool() {
					emit(Op{K: OpGet, Line: -1, Off: x.lineLen - 1})
				} else {
					emit(Op{K: OpGet, Line: x.U, Off: 0})
				}
			case r.Chance(15, 100):
				l := pickNonResident()
				if l < 0 {
					l = 0
				}
				emit(Op{K: OpGet, Line: l, Off: pickOff()})
			default:
				l := pickResident()
				if l < 0 {
					l = r.Intn(x.U)
				}
				emit(Op{K: OpGet, Line: l, Off: pickOff()})
			}
		case OpWrite:
			l := pickResident()
			if l < 0 {
				continue
			}
			off := pickOff()
			nb := 1
			switch r.Intn(6) {
			case 0:
				nb = 2
			case 1, 2:
				nb = 4
			case 3:
				nb = x.lineLen / 2 // mvp8 writes a whole L1 line into an L3 line
				off -= off % nb
			}
			if off+nb > x.lineLen {
				off = x.lineLen - nb
			}
			emit(Op{K: OpWrite, Line: l, Off: off, N: nb, V: wv})
			wv = (wv + nb) & 0xff
			written = append(written, [2]int{l, off + r.Intn(nb)})
			if len(written) > 6 {
				written = written[1:]
			}
		case OpGetLine:
			l := pickResident()
			if l < 0 || r.Chance(15, 100) {
				l = r.Intn(x.U)
			}
			emit(Op{K: OpGetLine, Line: l})
		case OpGetSub:
			l := pickResident()
			if l < 0 || r.Chance(15, 100) {
				l = r.Intn(x.U)
			}
			div := []int{1, 2, 2, 4}[r.Intn(4)]
			emit(Op{K: OpGetSub, Line: l, Off: pickOff(), N: div})
		case OpEvict:
			l := pickResident()
			if l < 0 || r.Chance(20, 100) {
				l = r.Intn(x.U)
			}
			emit(Op{K: OpEvict, Line: l})
		}
	}
	for len(x.pending) > 0 && !x.stopped {
		emit(Op{K: OpEvictVictim})
	}
	return h, x, x.fails
}

// genKV generates one history of the generic key-value LRU.
func genKV(r *rng.R, mk kvFactory, st *stats) (*History, *kvExec, []fail) {
	h := &History{Kind: "kv", Capacity: r.Range(1, 5)}
	h.Keys = h.Capacity + 3
	x, f := newKVExec(h, mk, st)
	if f != nil {
		return h, nil, []fail{*f}
	}
	val := r.Range(1, 1000)
	nops := r.Range(10, maxRandomOps)
	weights := []int{40, 35, 25}
	for n := 0; n < nops && !x.stopped; n++ {
		var o Op
		switch r.Pick(weights) {
		case 0:
			o = Op{K: OpPut, Key: r.Intn(h.Keys), V: val}
			val++
		case 1:
			o = Op{K: OpKGet, Key: r.Intn(h.Keys)}
		default:
			o = Op{K: OpFind}
			for k := 0; k <= h.Keys; k++ { // k == h.Keys is a key never put
				if r.Chance(40, 100) {
					o.Keys = append(o.Keys, k)
				}
			}
			r.Shuffle(len(o.Keys), func(i, j int) { o.Keys[i], o.Keys[j] = o.Keys[j], o.Keys[i] })
		}
		h.Ops = append(h.Ops, o)
		x.step(len(h.Ops) - 1)
	}
	x.finish()
	return h, x, x.fails
}
