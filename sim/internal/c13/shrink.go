package c13

// Shrinking: delta debugging over the operation list plus simplification of
// geometry, origin, offsets and lengths, keeping a candidate only while the
// same violation (class and known-finding signature) persists. Dropped
// operations can make later ones inapplicable; the executor skips those.

type runner func(h *History) []fail

func hasTarget(fs []fail, class, sig string) (fail, bool) {
	for _, f := range fs {
		if f.class == class && f.sig == sig {
			return f, true
		}
	}
	return fail{}, false
}

const shrinkBudget = 4000

func shrink(h *History, class, sig string, run runner) (*History, fail) {
	cur := h.clone()
	curFail, ok := hasTarget(run(cur), class, sig)
	if !ok {
		return cur, fail{class: class, sig: sig, detail: "not reproducible while shrinking"}
	}
	evals := 0
	try := func(c *History) bool {
		if evals >= shrinkBudget {
			return false
		}
		evals++
		f, ok := hasTarget(run(c), class, sig)
		if ok {
			cur = c
			curFail = f
		}
		return ok
	}
	truncate := func() {
		if curFail.op >= 0 && curFail.op+1 < len(cur.Ops) {
			c := cur.clone()
			c.Ops = c.Ops[:curFail.op+1]
			try(c)
		}
	}
	ddmin := func() bool {
		changed := false
		for size := (len(cur.Ops) + 1) / 2; size >= 1; size /= 2 {
			for start := 0; start < len(cur.Ops); {
				end := start + size
				if end > len(cur.Ops) {
					end = len(cur.Ops)
				}
				c := cur.clone()
				c.Ops = append(c.Ops[:start], c.Ops[end:]...)
				if len(c.Ops) > 0 && try(c) {
					changed = true
				} else {
					start = end
				}
			}
			if size == 1 {
				break
			}
		}
		return changed
	}
	truncate()
	ddmin()
	if cur.Kind == "line" {
		// geometry: fewer lines (one line less, with the same ops or with one
		// insertion dropped), then shorter lines
		shrinkCapacity(&cur, try, func(h *History) int { return h.CacheLen / h.LineLen },
			func(h *History, n int) { h.CacheLen = n * h.LineLen }, OpPush)
		for _, ll := range []int{4, 8, 16, 32, 64} {
			if ll >= cur.LineLen {
				break
			}
			c := cur.clone()
			capLines := c.CacheLen / c.LineLen
			org := c.Origin / c.LineLen
			c.LineLen = ll
			c.CacheLen = capLines * ll
			c.Origin = org * ll
			for i := range c.Ops {
				o := &c.Ops[i]
				o.Off %= ll
				if o.K == OpWrite && o.Off+o.N > ll {
					o.N = ll - o.Off
				}
			}
			if try(c) {
				break
			}
		}
		if cur.Origin != 0 {
			c := cur.clone()
			c.Origin = 0
			try(c)
		}
		truncate()
		ddmin()
		// renumber lines densely in order of first use, simplify single ops
		{
			c := cur.clone()
			m := map[int]int{}
			next := 0
			for i := range c.Ops {
				o := &c.Ops[i]
				if o.K == OpEvictVictim || o.Line < 0 || (o.K == OpGet && o.Line >= cur.Lines) {
					continue
				}
				if _, ok := m[o.Line]; !ok {
					m[o.Line] = next
					next++
				}
				o.Line = m[o.Line]
			}
			if next > 0 {
				c.Lines = next
				for i := range c.Ops {
					if c.Ops[i].K == OpGet && c.Ops[i].Line >= cur.Lines {
						c.Ops[i].Line = next
					}
				}
				try(c)
			}
		}
		for i := 0; i < len(cur.Ops); i++ {
			o := cur.Ops[i]
			if o.K == OpWrite && o.N > 1 {
				c := cur.clone()
				c.Ops[i].N = 1
				try(c)
			}
			if (o.K == OpGet || o.K == OpWrite || o.K == OpGetSub) && cur.Ops[i].Off != 0 {
				c := cur.clone()
				c.Ops[i].Off = 0
				try(c)
			}
			if o.K == OpGetSub && o.N != 1 {
				c := cur.clone()
				c.Ops[i].N = 1
				try(c)
			}
		}
		// small fill ids
		{
			c := cur.clone()
			n := 1
			for i := range c.Ops {
				if c.Ops[i].K == OpPush {
					c.Ops[i].V = n
					n++
				}
			}
			try(c)
		}
	} else {
		shrinkCapacity(&cur, try, func(h *History) int { return h.Capacity },
			func(h *History, n int) { h.Capacity = n }, OpPut)
		truncate()
		ddmin()
		for i := 0; i < len(cur.Ops); i++ {
			if cur.Ops[i].K != OpFind {
				continue
			}
			for j := 0; j < len(cur.Ops[i].Keys); {
				c := cur.clone()
				ks := append([]int(nil), c.Ops[i].Keys...)
				c.Ops[i].Keys = append(ks[:j], ks[j+1:]...)
				if !try(c) {
					j++
				}
			}
		}
	}
	return cur, curFail
}

// shrinkCapacity lowers the capacity one by one, keeping the ops or dropping
// one insertion, while the target violation persists.
func shrinkCapacity(cur **History, try func(*History) bool, get func(*History) int, set func(*History, int), ins Kind) {
	for get(*cur) > 1 {
		n := get(*cur) - 1
		c := (*cur).clone()
		set(c, n)
		if try(c) {
			continue
		}
		ok := false
		for j := 0; j < len((*cur).Ops) && !ok; j++ {
			if (*cur).Ops[j].K != ins {
				continue
			}
			c := (*cur).clone()
			set(c, n)
			c.Ops = append(c.Ops[:j], c.Ops[j+1:]...)
			ok = try(c)
		}
		if !ok {
			return
		}
	}
}
