// Package api is the contract between the simcheck driver and the per-property
// check packages. A check explores run indices [From,To) of a batch; each run
// index i derives everything it does from rng.Derive(Seed, i). Results of
// disjoint index ranges are merged by the driver, so nothing in a Result may
// depend on which other indices ran in the same process.
package api

import "encoding/json"

// Violation is one property violation with its minimised replay payload.
type Violation struct {
	Property string `json:"property"`
	// Class identifies the kind of violation; a replay must reproduce the same class.
	Class  string `json:"class"`
	Detail string `json:"detail"`
	// RunIndex and Seed say where the search found it.
	RunIndex int    `json:"run_index"`
	Seed     uint64 `json:"seed"`
	// Replay is the check-specific payload from which Replay() re-executes
	// exactly this execution (program/history, configuration, schedule).
	Replay json.RawMessage `json:"replay"`
	// KnownFinding is set by the driver when the violation matches an entry of KNOWN_FINDINGS.
	KnownFinding string `json:"known_finding,omitempty"`
}

// Result is what a batch (or a merged set of batches) reports.
type Result struct {
	Evaluations int64 `json:"evaluations"` // simulated runs / histories executed
	// Distinct holds hashes of the non-trivial distinct cases reached (merged by union).
	Distinct map[uint64]struct{} `json:"-"`
	// DistinctList is Distinct serialised for transport between processes.
	DistinctList []uint64 `json:"distinct,omitempty"`
	// Counters: fault kinds fired, probes hit, ops executed, skipped-by-known-finding, ...
	Counters map[string]int64 `json:"counters"`
	// SimCycles is the simulated time covered (cycles or operations).
	SimCycles int64 `json:"sim_cycles"`
	// Samples are a few written-out cases.
	Samples    []json.RawMessage `json:"samples,omitempty"`
	Violations []Violation       `json:"violations,omitempty"`
	// Inconclusive counts verdicts that could not be decided (porcupine timeouts).
	Inconclusive int64 `json:"inconclusive,omitempty"`
}

func NewResult() *Result {
	return &Result{Distinct: map[uint64]struct{}{}, Counters: map[string]int64{}}
}

func (r *Result) Count(name string, n int64) { r.Counters[name] += n }
func (r *Result) Seen(h uint64)              { r.Distinct[h] = struct{}{} }

func (r *Result) AddSample(v any, max int) {
	if len(r.Samples) >= max {
		return
	}
	b, err := json.Marshal(v)
	if err == nil {
		r.Samples = append(r.Samples, b)
	}
}

// Merge folds o into r.
func (r *Result) Merge(o *Result, maxSamples, maxViolations int) {
	r.Evaluations += o.Evaluations
	r.SimCycles += o.SimCycles
	r.Inconclusive += o.Inconclusive
	for k, v := range o.Counters {
		r.Counters[k] += v
	}
	for h := range o.Distinct {
		r.Distinct[h] = struct{}{}
	}
	for _, h := range o.DistinctList {
		r.Distinct[h] = struct{}{}
	}
	for _, s := range o.Samples {
		if len(r.Samples) < maxSamples {
			r.Samples = append(r.Samples, s)
		}
	}
	// Violations already attributed to an open known finding are samples: at
	// most maxViolations of them are kept. A violation that is NOT attributed
	// is never crowded out by those (it used to be, once 200 attributed ones
	// had been merged: the one fresh violation of a run was silently lost).
	known, fresh := 0, 0
	for _, v := range r.Violations {
		if v.KnownFinding != "" {
			known++
		} else {
			fresh++
		}
	}
	for _, v := range o.Violations {
		if v.KnownFinding != "" {
			if known < maxViolations {
				known++
				r.Violations = append(r.Violations, v)
			}
		} else if fresh < 20*maxViolations {
			fresh++
			r.Violations = append(r.Violations, v)
		}
	}
}

// Pack prepares r for JSON transport.
func (r *Result) Pack() {
	r.DistinctList = r.DistinctList[:0]
	for h := range r.Distinct {
		r.DistinctList = append(r.DistinctList, h)
	}
}

// Batch describes the slice of a run a worker executes.
type Batch struct {
	Property string `json:"property"`
	Tier     string `json:"tier"` // quick | thorough
	Seed     uint64 `json:"seed"`
	From     int    `json:"from"`
	To       int    `json:"to"`
}

// Check is implemented by each property package.
type Check interface {
	// ID returns the property id, e.g. "C13".
	ID() string
	// Runs returns the number of run indices of a tier.
	Runs(tier string) int
	// Run explores indices [b.From, b.To).
	Run(b Batch) *Result
	// Replay re-executes a replay payload and returns the violation it
	// reproduces (nil if the execution now satisfies the property).
	Replay(payload json.RawMessage) (*Violation, error)
	// Describe returns the evidence strings: rule for distinct/non-trivial,
	// real-vs-stub components, assumptions.
	Describe() Description
}

type Description struct {
	Level       string   `json:"level"` // exploration | fault_enumeration
	Rule        string   `json:"rule"`
	Real        []string `json:"real_components"`
	Stub        []string `json:"stub_components"`
	Assumptions []string `json:"assumptions"`
	FaultKinds  []string `json:"fault_kinds"`
}

// Explainer is optionally implemented by checks: it tells which open known
// finding (if any) explains the violation a replay payload reproduces.
type Explainer interface {
	Explain(payload json.RawMessage) (string, error)
}
